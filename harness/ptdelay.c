/* ptdelay - per-thread delay injection at code addresses of an UNMODIFIED binary.
 *
 *   ptdelay <max_us> <seed> <stats-file|-> <hexaddr>[,<hexaddr>...] -- <program> [args...]
 *
 * Runs <program> under ptrace, puts a breakpoint on every given address (values from the
 * program's symbol table; the load base of a position-independent executable is added), and
 * whenever a thread arrives at one of them keeps THAT thread stopped for a pseudo-random time
 * (0..max_us, every second arrival) while all other threads keep running. Standard streams are
 * inherited, the exit status is passed on. It is a schedule perturbation at function-call
 * boundaries (where the kernel may pre-empt a thread anyway): it cannot create an interleaving
 * the program could not have, it only makes narrow windows between two calls wide.
 */
#define _GNU_SOURCE
#include <errno.h>
#include <signal.h>
#include <stdint.h>
#include <stdio.h>
#include <stdlib.h>
#include <string.h>
#include <sys/ptrace.h>
#include <sys/types.h>
#include <sys/user.h>
#include <sys/wait.h>
#include <time.h>
#include <unistd.h>

#define MAXBP 64
#define MAXTID 256

static struct { uint64_t addr; long orig; } bp[MAXBP];
static int nbp = 0;
static pid_t known[MAXTID];
static int nknown = 0;
static uint64_t rng_state;
static unsigned long hits = 0, delayed = 0, total_us = 0;
static const char *stats_path = NULL;

static uint64_t rnd(void) {
    rng_state ^= rng_state << 13;
    rng_state ^= rng_state >> 7;
    rng_state ^= rng_state << 17;
    return rng_state;
}

static int is_known(pid_t t) {
    for (int i = 0; i < nknown; i++) if (known[i] == t) return 1;
    return 0;
}
static void add_known(pid_t t) {
    if (!is_known(t) && nknown < MAXTID) known[nknown++] = t;
}

static void write_stats(void) {
    if (!stats_path || strcmp(stats_path, "-") == 0) return;
    FILE *f = fopen(stats_path, "w");
    if (!f) return;
    fprintf(f, "breakpoints=%d hits=%lu delayed=%lu total_delay_us=%lu threads=%d\n", nbp, hits, delayed, total_us, nknown);
    fclose(f);
}

static uint64_t load_base(pid_t pid) {
    char path[64], line[512], exe[512], link[64];
    snprintf(link, sizeof link, "/proc/%d/exe", pid);
    ssize_t n = readlink(link, exe, sizeof exe - 1);
    if (n <= 0) return 0;
    exe[n] = 0;
    snprintf(path, sizeof path, "/proc/%d/maps", pid);
    FILE *f = fopen(path, "r");
    if (!f) return 0;
    uint64_t base = 0;
    while (fgets(line, sizeof line, f)) {
        unsigned long lo, hi, off;
        char perms[8], dev[16], file[400];
        unsigned long ino;
        file[0] = 0;
        if (sscanf(line, "%lx-%lx %7s %lx %15s %lu %399s", &lo, &hi, perms, &off, dev, &ino, file) >= 6) {
            if (off == 0 && strcmp(file, exe) == 0) { base = lo; break; }
        }
    }
    fclose(f);
    return base;
}

int main(int argc, char **argv) {
    if (argc < 7) { fprintf(stderr, "usage: ptdelay <max_us> <seed> <stats|-> <addr,addr,...> -- prog args\n"); return 2; }
    unsigned max_us = (unsigned)strtoul(argv[1], 0, 10);
    rng_state = strtoull(argv[2], 0, 10) * 0x9E3779B97F4A7C15ull + 0x1234567ull;
    if (!rng_state) rng_state = 1;
    stats_path = argv[3];
    uint64_t offs[MAXBP]; int noff = 0;
    for (char *tok = strtok(argv[4], ","); tok && noff < MAXBP; tok = strtok(0, ",")) offs[noff++] = strtoull(tok, 0, 16);
    if (strcmp(argv[5], "--") != 0) { fprintf(stderr, "ptdelay: expected --\n"); return 2; }
    pid_t child = fork();
    if (child < 0) return 2;
    if (child == 0) {
        ptrace(PTRACE_TRACEME, 0, 0, 0);
        execvp(argv[6], argv + 6);
        _exit(127);
    }
    int st;
    if (waitpid(child, &st, __WALL) < 0 || !WIFSTOPPED(st)) { fprintf(stderr, "ptdelay: child did not stop after exec\n"); return 2; }
    add_known(child);
    ptrace(PTRACE_SETOPTIONS, child, 0, PTRACE_O_TRACECLONE | PTRACE_O_EXITKILL);
    uint64_t base = load_base(child);
    /* a non-PIE executable is mapped at its link address: symbol values are absolute */
    for (int i = 0; i < noff; i++) {
        uint64_t a = offs[i] + (offs[i] < base ? base : 0);
        errno = 0;
        long w = ptrace(PTRACE_PEEKTEXT, child, (void *)a, 0);
        if (errno) continue;
        if (ptrace(PTRACE_POKETEXT, child, (void *)a, (void *)((w & ~0xffL) | 0xcc)) != 0) continue;
        bp[nbp].addr = a; bp[nbp].orig = w; nbp++;
    }
    write_stats();
    ptrace(PTRACE_CONT, child, 0, 0);
    for (;;) {
        pid_t t = waitpid(-1, &st, __WALL);
        if (t < 0) { if (errno == EINTR) continue; break; }
        if (WIFEXITED(st) || WIFSIGNALED(st)) {
            if (t == child) {
                write_stats();
                if (WIFEXITED(st)) return WEXITSTATUS(st);
                /* die the same way so that the parent sees the signal */
                signal(WTERMSIG(st), SIG_DFL);
                raise(WTERMSIG(st));
                return 128 + WTERMSIG(st);
            }
            continue;
        }
        if (!WIFSTOPPED(st)) continue;
        int sig = WSTOPSIG(st), ev = st >> 16;
        if (ev != 0) { /* clone event of the parent thread */
            ptrace(PTRACE_CONT, t, 0, 0);
            continue;
        }
        if (sig == SIGSTOP && !is_known(t)) { /* first stop of an auto-attached thread */
            add_known(t);
            ptrace(PTRACE_CONT, t, 0, 0);
            continue;
        }
        if (sig == SIGTRAP) {
            struct user_regs_struct r;
            if (ptrace(PTRACE_GETREGS, t, 0, &r) == 0) {
                int k = -1;
                for (int i = 0; i < nbp; i++) if (bp[i].addr == r.rip - 1) { k = i; break; }
                if (k >= 0) {
                    hits++;
                    if (max_us > 0 && (rnd() & 1)) {
                        unsigned us = (unsigned)(rnd() % (max_us + 1));
                        struct timespec ts = { us / 1000000, (long)(us % 1000000) * 1000 };
                        nanosleep(&ts, 0);
                        delayed++; total_us += us;
                    }
                    if ((hits & 63) == 0) write_stats();
                    /* step over: original byte back, one instruction, breakpoint in again */
                    ptrace(PTRACE_POKETEXT, t, (void *)bp[k].addr, (void *)bp[k].orig);
                    r.rip = bp[k].addr;
                    ptrace(PTRACE_SETREGS, t, 0, &r);
                    ptrace(PTRACE_SINGLESTEP, t, 0, 0);
                    int st2, fwd = 0;
                    if (waitpid(t, &st2, __WALL) == t && WIFSTOPPED(st2) && WSTOPSIG(st2) != SIGTRAP) fwd = WSTOPSIG(st2);
                    ptrace(PTRACE_POKETEXT, t, (void *)bp[k].addr, (void *)((bp[k].orig & ~0xffL) | 0xcc));
                    if (WIFSTOPPED(st2)) ptrace(PTRACE_CONT, t, 0, fwd);
                    continue;
                }
            }
            ptrace(PTRACE_CONT, t, 0, 0);
            continue;
        }
        add_known(t);
        ptrace(PTRACE_CONT, t, 0, sig);
    }
    write_stats();
    return 0;
}
