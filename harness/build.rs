// Emits the cfg that switches the hooks on and generates the list of engine modules, compiled
// straight from the repository's working tree (default /repo; WALLEYE_REPO overrides it for runs
// against a snapshot - registered checks never set it).
use std::io::Write;

fn main() {
    println!("cargo:rustc-cfg=walleye_verif");
    println!("cargo:rustc-check-cfg=cfg(walleye_verif)");
    println!("cargo:rerun-if-changed=build.rs");
    println!("cargo:rerun-if-env-changed=WALLEYE_REPO");
    let repo = std::env::var("WALLEYE_REPO").unwrap_or_else(|_| "/repo".to_string());
    let out = std::path::PathBuf::from(std::env::var("OUT_DIR").unwrap()).join("engine_mods.rs");
    let mut f = std::fs::File::create(out).unwrap();
    for m in ["board", "draw_table", "engine", "evaluation", "move_generation", "search", "time_control", "uci", "utils", "verif", "zobrist"] {
        writeln!(f, "#[path = \"{}/src/{}.rs\"]\nmod {};", repo, m, m).unwrap();
        println!("cargo:rerun-if-changed={}/src/{}.rs", repo, m);
    }
}
