fn main() {
    println!("cargo:rustc-cfg=walleye_verif");
    println!("cargo:rustc-check-cfg=cfg(walleye_verif)");
    println!("cargo:rerun-if-changed=build.rs");
}
