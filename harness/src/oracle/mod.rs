//! Independent executable model of the rules of chess (FIDE Laws), written without reference to
//! Walleye's data structures: 64-square array, a1 = 0, forward attack generation, kings found by
//! scanning. Identity of a position = (placement, side to move, four rights, ep target).
//!
//! Convention shared with Walleye (and with old-style FEN): the ep target is set after *every*
//! double step, whether or not a capture is possible.

use std::fmt;

#[derive(Clone, Copy, PartialEq, Eq, Hash, Debug, PartialOrd, Ord)]
pub enum Color {
    White,
    Black,
}

impl Color {
    pub fn other(self) -> Color {
        match self {
            Color::White => Color::Black,
            Color::Black => Color::White,
        }
    }
}

#[derive(Clone, Copy, PartialEq, Eq, Hash, Debug, PartialOrd, Ord)]
pub enum Kind {
    Pawn,
    Knight,
    Bishop,
    Rook,
    Queen,
    King,
}

pub const PROMO_KINDS: [Kind; 4] = [Kind::Queen, Kind::Rook, Kind::Bishop, Kind::Knight];

pub type Pc = Option<(Color, Kind)>;

pub const WK: usize = 0;
pub const WQ: usize = 1;
pub const BK: usize = 2;
pub const BQ: usize = 3;

#[derive(Clone, PartialEq, Eq, Hash)]
pub struct Pos {
    pub sq: [Pc; 64],
    pub stm: Color,
    pub castle: [bool; 4],
    pub ep: Option<u8>,
}

#[derive(Clone, Copy, PartialEq, Eq, Hash, PartialOrd, Ord, Debug)]
pub struct Mv {
    pub from: u8,
    pub to: u8,
    pub promo: Option<Kind>,
}

pub fn file_of(s: u8) -> i32 {
    (s % 8) as i32
}
pub fn rank_of(s: u8) -> i32 {
    (s / 8) as i32
}
pub fn sq_at(file: i32, rank: i32) -> Option<u8> {
    if (0..8).contains(&file) && (0..8).contains(&rank) {
        Some((rank * 8 + file) as u8)
    } else {
        None
    }
}
pub fn sq_name(s: u8) -> String {
    format!("{}{}", (b'a' + s % 8) as char, (b'1' + s / 8) as char)
}
pub fn parse_sq(t: &str) -> Option<u8> {
    let b = t.as_bytes();
    if b.len() != 2 || !(b'a'..=b'h').contains(&b[0]) || !(b'1'..=b'8').contains(&b[1]) {
        return None;
    }
    Some((b[1] - b'1') * 8 + (b[0] - b'a'))
}

pub fn kind_letter(k: Kind) -> char {
    match k {
        Kind::Pawn => 'p',
        Kind::Knight => 'n',
        Kind::Bishop => 'b',
        Kind::Rook => 'r',
        Kind::Queen => 'q',
        Kind::King => 'k',
    }
}

pub fn piece_letter(c: Color, k: Kind) -> char {
    let l = kind_letter(k);
    if c == Color::White {
        l.to_ascii_uppercase()
    } else {
        l
    }
}

pub fn piece_from_letter(ch: char) -> Pc {
    let k = match ch.to_ascii_lowercase() {
        'p' => Kind::Pawn,
        'n' => Kind::Knight,
        'b' => Kind::Bishop,
        'r' => Kind::Rook,
        'q' => Kind::Queen,
        'k' => Kind::King,
        _ => return None,
    };
    Some((if ch.is_ascii_uppercase() { Color::White } else { Color::Black }, k))
}

impl fmt::Display for Mv {
    fn fmt(&self, f: &mut fmt::Formatter) -> fmt::Result {
        write!(f, "{}{}", sq_name(self.from), sq_name(self.to))?;
        if let Some(k) = self.promo {
            write!(f, "{}", kind_letter(k))?;
        }
        Ok(())
    }
}

pub fn parse_mv(t: &str) -> Option<Mv> {
    if !t.is_ascii() || (t.len() != 4 && t.len() != 5) {
        return None;
    }
    let from = parse_sq(&t[0..2])?;
    let to = parse_sq(&t[2..4])?;
    let promo = if t.len() == 5 {
        match &t[4..5] {
            "q" => Some(Kind::Queen),
            "r" => Some(Kind::Rook),
            "b" => Some(Kind::Bishop),
            "n" => Some(Kind::Knight),
            _ => return None,
        }
    } else {
        None
    };
    Some(Mv { from, to, promo })
}

pub const START_FEN: &str = "rnbqkbnr/pppppppp/8/8/8/8/PPPPPPPP/RNBQKBNR w KQkq -";

impl Pos {
    pub fn empty() -> Pos {
        Pos { sq: [None; 64], stm: Color::White, castle: [false; 4], ep: None }
    }

    pub fn start() -> Pos {
        Pos::parse_fen(START_FEN).unwrap()
    }

    /// Strict parser for the first four FEN fields (counters, if present, must be integers).
    pub fn parse_fen(fen: &str) -> Result<Pos, String> {
        let f: Vec<&str> = fen.split_whitespace().collect();
        if f.len() < 4 {
            return Err("fewer than four fields".into());
        }
        let mut p = Pos::empty();
        let rows: Vec<&str> = f[0].split('/').collect();
        if rows.len() != 8 {
            return Err("placement needs 8 rows".into());
        }
        for (i, row) in rows.iter().enumerate() {
            let rank = 7 - i as i32;
            let mut file = 0i32;
            for ch in row.chars() {
                if let Some(d) = ch.to_digit(10) {
                    if d == 0 || d > 8 {
                        return Err("bad digit".into());
                    }
                    file += d as i32;
                } else {
                    let pc = piece_from_letter(ch).ok_or("bad piece letter")?;
                    if file > 7 {
                        return Err("row too long".into());
                    }
                    p.sq[(rank * 8 + file) as usize] = Some(pc);
                    file += 1;
                }
            }
            if file != 8 {
                return Err("row length".into());
            }
        }
        p.stm = match f[1] {
            "w" => Color::White,
            "b" => Color::Black,
            _ => return Err("side".into()),
        };
        if f[2] != "-" {
            for ch in f[2].chars() {
                match ch {
                    'K' => p.castle[WK] = true,
                    'Q' => p.castle[WQ] = true,
                    'k' => p.castle[BK] = true,
                    'q' => p.castle[BQ] = true,
                    _ => return Err("rights".into()),
                }
            }
        }
        p.ep = if f[3] == "-" { None } else { Some(parse_sq(f[3]).ok_or("ep")?) };
        for extra in f.iter().skip(4) {
            extra.parse::<u64>().map_err(|_| "counter".to_string())?;
        }
        Ok(p)
    }

    pub fn placement_fen(&self) -> String {
        let mut s = String::new();
        for rank in (0..8).rev() {
            let mut run = 0;
            for file in 0..8 {
                match self.sq[rank * 8 + file] {
                    None => run += 1,
                    Some((c, k)) => {
                        if run > 0 {
                            s.push_str(&run.to_string());
                            run = 0;
                        }
                        s.push(piece_letter(c, k));
                    }
                }
            }
            if run > 0 {
                s.push_str(&run.to_string());
            }
            if rank > 0 {
                s.push('/');
            }
        }
        s
    }

    /// Canonical four-field FEN: the identity of a position.
    pub fn to_fen(&self) -> String {
        let mut rights = String::new();
        for (i, ch) in ['K', 'Q', 'k', 'q'].iter().enumerate() {
            if self.castle[i] {
                rights.push(*ch);
            }
        }
        if rights.is_empty() {
            rights.push('-');
        }
        format!(
            "{} {} {} {}",
            self.placement_fen(),
            if self.stm == Color::White { "w" } else { "b" },
            rights,
            match self.ep {
                Some(s) => sq_name(s),
                None => "-".to_string(),
            }
        )
    }

    /// Six-field FEN with explicit counters.
    pub fn to_fen6(&self, half: u64, full: u64) -> String {
        format!("{} {} {}", self.to_fen(), half, full)
    }

    /// Six-field FEN with counters as a game in progress would have them: a function of the
    /// position (so that the same position always gives the same text), half-move clock 0..99,
    /// move number 1..900 - beyond 255 for a good quarter of the positions. The engine keeps
    /// neither; a parser that stumbles over large counters shows only with such values.
    pub fn to_fen_game(&self) -> String {
        let h = crate::rng::hash64(&self.to_fen());
        self.to_fen6(h % 100, 1 + (h / 128) % 900)
    }

    pub fn king_sq(&self, c: Color) -> Option<u8> {
        (0..64u8).find(|&s| self.sq[s as usize] == Some((c, Kind::King)))
    }

    pub fn count(&self, c: Color, k: Kind) -> usize {
        self.sq.iter().filter(|&&x| x == Some((c, k))).count()
    }
}

const KNIGHT_D: [(i32, i32); 8] =
    [(1, 2), (2, 1), (2, -1), (1, -2), (-1, -2), (-2, -1), (-2, 1), (-1, 2)];
const KING_D: [(i32, i32); 8] =
    [(1, 0), (1, 1), (0, 1), (-1, 1), (-1, 0), (-1, -1), (0, -1), (1, -1)];
const ROOK_D: [(i32, i32); 4] = [(1, 0), (-1, 0), (0, 1), (0, -1)];
const BISHOP_D: [(i32, i32); 4] = [(1, 1), (1, -1), (-1, 1), (-1, -1)];

/// Does the piece standing on `from` attack `target` (rules of movement only)?
fn piece_attacks(p: &Pos, from: u8, target: u8) -> bool {
    let (c, k) = match p.sq[from as usize] {
        Some(x) => x,
        None => return false,
    };
    if from == target {
        return false;
    }
    let df = file_of(target) - file_of(from);
    let dr = rank_of(target) - rank_of(from);
    match k {
        Kind::Pawn => {
            let fwd = if c == Color::White { 1 } else { -1 };
            dr == fwd && df.abs() == 1
        }
        Kind::Knight => (df.abs() == 1 && dr.abs() == 2) || (df.abs() == 2 && dr.abs() == 1),
        Kind::King => df.abs() <= 1 && dr.abs() <= 1,
        Kind::Bishop | Kind::Rook | Kind::Queen => {
            let diag = df.abs() == dr.abs();
            let line = df == 0 || dr == 0;
            let ok = match k {
                Kind::Bishop => diag,
                Kind::Rook => line,
                _ => diag || line,
            };
            if !ok {
                return false;
            }
            let sf = df.signum();
            let sr = dr.signum();
            let mut f = file_of(from) + sf;
            let mut r = rank_of(from) + sr;
            while (f, r) != (file_of(target), rank_of(target)) {
                if p.sq[(r * 8 + f) as usize].is_some() {
                    return false;
                }
                f += sf;
                r += sr;
            }
            true
        }
    }
}

/// Is square `target` attacked by any piece of colour `by`?
pub fn attacked(p: &Pos, target: u8, by: Color) -> bool {
    (0..64u8).any(|s| matches!(p.sq[s as usize], Some((c, _)) if c == by) && piece_attacks(p, s, target))
}

/// Number of pieces of colour `by` attacking `target`.
pub fn attackers(p: &Pos, target: u8, by: Color) -> usize {
    (0..64u8)
        .filter(|&s| matches!(p.sq[s as usize], Some((c, _)) if c == by) && piece_attacks(p, s, target))
        .count()
}

pub fn in_check(p: &Pos, c: Color) -> bool {
    match p.king_sq(c) {
        Some(k) => attacked(p, k, c.other()),
        None => false,
    }
}

fn push_pawn_move(out: &mut Vec<Mv>, from: u8, to: u8, promo_rank: i32) {
    if rank_of(to) == promo_rank {
        for k in PROMO_KINDS {
            out.push(Mv { from, to, promo: Some(k) });
        }
    } else {
        out.push(Mv { from, to, promo: None });
    }
}

/// Pseudo-legal moves (castling included with its full conditions, king safety of the *result*
/// not yet tested).
pub fn pseudo_moves(p: &Pos) -> Vec<Mv> {
    let mut out = Vec::with_capacity(48);
    let us = p.stm;
    for from in 0..64u8 {
        let (c, k) = match p.sq[from as usize] {
            Some(x) => x,
            None => continue,
        };
        if c != us {
            continue;
        }
        let f0 = file_of(from);
        let r0 = rank_of(from);
        match k {
            Kind::Pawn => {
                let (fwd, start_rank, promo_rank) =
                    if us == Color::White { (1, 1, 7) } else { (-1, 6, 0) };
                if let Some(one) = sq_at(f0, r0 + fwd) {
                    if p.sq[one as usize].is_none() {
                        push_pawn_move(&mut out, from, one, promo_rank);
                        if r0 == start_rank {
                            if let Some(two) = sq_at(f0, r0 + 2 * fwd) {
                                if p.sq[two as usize].is_none() {
                                    out.push(Mv { from, to: two, promo: None });
                                }
                            }
                        }
                    }
                }
                for df in [-1, 1] {
                    if let Some(to) = sq_at(f0 + df, r0 + fwd) {
                        match p.sq[to as usize] {
                            Some((oc, _)) if oc != us => push_pawn_move(&mut out, from, to, promo_rank),
                            None => {
                                if p.ep == Some(to) && ep_victim_present(p, to) {
                                    out.push(Mv { from, to, promo: None });
                                }
                            }
                            _ => {}
                        }
                    }
                }
            }
            Kind::Knight | Kind::King => {
                let d = if k == Kind::Knight { &KNIGHT_D } else { &KING_D };
                for (df, dr) in d.iter() {
                    if let Some(to) = sq_at(f0 + df, r0 + dr) {
                        match p.sq[to as usize] {
                            Some((oc, _)) if oc == us => {}
                            _ => out.push(Mv { from, to, promo: None }),
                        }
                    }
                }
            }
            Kind::Bishop | Kind::Rook | Kind::Queen => {
                let mut dirs: Vec<(i32, i32)> = Vec::new();
                if k != Kind::Bishop {
                    dirs.extend_from_slice(&ROOK_D);
                }
                if k != Kind::Rook {
                    dirs.extend_from_slice(&BISHOP_D);
                }
                for (df, dr) in dirs {
                    let mut f = f0 + df;
                    let mut r = r0 + dr;
                    while let Some(to) = sq_at(f, r) {
                        match p.sq[to as usize] {
                            None => out.push(Mv { from, to, promo: None }),
                            Some((oc, _)) => {
                                if oc != us {
                                    out.push(Mv { from, to, promo: None });
                                }
                                break;
                            }
                        }
                        f += df;
                        r += dr;
                    }
                }
            }
        }
    }
    // castling
    let (home_rank, ki, qi) = if us == Color::White { (0, WK, WQ) } else { (7, BK, BQ) };
    let e = (home_rank * 8 + 4) as u8;
    let them = us.other();
    if p.sq[e as usize] == Some((us, Kind::King)) {
        if p.castle[ki]
            && p.sq[(e + 3) as usize] == Some((us, Kind::Rook))
            && p.sq[(e + 1) as usize].is_none()
            && p.sq[(e + 2) as usize].is_none()
            && !attacked(p, e, them)
            && !attacked(p, e + 1, them)
            && !attacked(p, e + 2, them)
        {
            out.push(Mv { from: e, to: e + 2, promo: None });
        }
        if p.castle[qi]
            && p.sq[(e - 4) as usize] == Some((us, Kind::Rook))
            && p.sq[(e - 1) as usize].is_none()
            && p.sq[(e - 2) as usize].is_none()
            && p.sq[(e - 3) as usize].is_none()
            && !attacked(p, e, them)
            && !attacked(p, e - 1, them)
            && !attacked(p, e - 2, them)
        {
            out.push(Mv { from: e, to: e - 2, promo: None });
        }
    }
    out
}

/// The pawn that an en-passant capture onto `target` would remove really stands there.
fn ep_victim_present(p: &Pos, target: u8) -> bool {
    let us = p.stm;
    let victim_rank = if us == Color::White { rank_of(target) - 1 } else { rank_of(target) + 1 };
    let ok_rank = if us == Color::White { rank_of(target) == 5 } else { rank_of(target) == 2 };
    if !ok_rank {
        return false;
    }
    match sq_at(file_of(target), victim_rank) {
        Some(v) => p.sq[v as usize] == Some((us.other(), Kind::Pawn)),
        None => false,
    }
}

pub fn is_castle(p: &Pos, m: Mv) -> bool {
    matches!(p.sq[m.from as usize], Some((_, Kind::King))) && (file_of(m.from) - file_of(m.to)).abs() == 2
}

pub fn is_ep_capture(p: &Pos, m: Mv) -> bool {
    matches!(p.sq[m.from as usize], Some((_, Kind::Pawn)))
        && file_of(m.from) != file_of(m.to)
        && p.sq[m.to as usize].is_none()
}

pub fn is_capture(p: &Pos, m: Mv) -> bool {
    p.sq[m.to as usize].is_some() || is_ep_capture(p, m)
}

pub fn is_promotion(p: &Pos, m: Mv) -> bool {
    match p.sq[m.from as usize] {
        Some((Color::White, Kind::Pawn)) => rank_of(m.to) == 7,
        Some((Color::Black, Kind::Pawn)) => rank_of(m.to) == 0,
        _ => false,
    }
}

/// Play a (pseudo-)legal move. Does not test legality.
pub fn apply(p: &Pos, m: Mv) -> Pos {
    let mut n = p.clone();
    let (c, k) = p.sq[m.from as usize].expect("apply: empty from-square");
    n.ep = None;
    if k == Kind::Pawn && is_ep_capture(p, m) {
        let victim = sq_at(file_of(m.to), rank_of(m.from)).unwrap();
        n.sq[victim as usize] = None;
    }
    n.sq[m.from as usize] = None;
    n.sq[m.to as usize] = Some((c, m.promo.unwrap_or(k)));
    if k == Kind::Pawn && (rank_of(m.to) - rank_of(m.from)).abs() == 2 {
        n.ep = sq_at(file_of(m.from), (rank_of(m.from) + rank_of(m.to)) / 2);
    }
    if k == Kind::King && (file_of(m.to) - file_of(m.from)).abs() == 2 {
        let r = rank_of(m.from);
        if file_of(m.to) == 6 {
            n.sq[(r * 8 + 7) as usize] = None;
            n.sq[(r * 8 + 5) as usize] = Some((c, Kind::Rook));
        } else {
            n.sq[(r * 8) as usize] = None;
            n.sq[(r * 8 + 3) as usize] = Some((c, Kind::Rook));
        }
    }
    // rights: lost when the king or the rook leaves its home square or the rook is captured there
    for s in [m.from, m.to] {
        match s {
            4 => {
                n.castle[WK] = false;
                n.castle[WQ] = false;
            }
            7 => n.castle[WK] = false,
            0 => n.castle[WQ] = false,
            60 => {
                n.castle[BK] = false;
                n.castle[BQ] = false;
            }
            63 => n.castle[BK] = false,
            56 => n.castle[BQ] = false,
            _ => {}
        }
    }
    n.stm = p.stm.other();
    n
}

pub fn legal_moves(p: &Pos) -> Vec<Mv> {
    let us = p.stm;
    pseudo_moves(p)
        .into_iter()
        .filter(|&m| {
            let n = apply(p, m);
            !in_check(&n, us)
        })
        .collect()
}

pub fn has_legal_move(p: &Pos) -> bool {
    let us = p.stm;
    pseudo_moves(p).into_iter().any(|m| !in_check(&apply(p, m), us))
}

pub fn is_checkmate(p: &Pos) -> bool {
    in_check(p, p.stm) && !has_legal_move(p)
}

pub fn is_stalemate(p: &Pos) -> bool {
    !in_check(p, p.stm) && !has_legal_move(p)
}

/// Exactly the parenthesis of C01's statement.
pub fn legal_position_reason(p: &Pos) -> Result<(), &'static str> {
    if p.count(Color::White, Kind::King) != 1 || p.count(Color::Black, Kind::King) != 1 {
        return Err("not exactly one king per side");
    }
    if in_check(p, p.stm.other()) {
        return Err("side not to move is in check");
    }
    for f in 0..8 {
        for r in [0usize, 7] {
            if matches!(p.sq[r * 8 + f], Some((_, Kind::Pawn))) {
                return Err("pawn on first or last rank");
            }
        }
    }
    let need = |cond: bool, k: u8, ksq: Pc, r: u8, rsq: Pc| -> bool {
        !cond || (p.sq[k as usize] == ksq && p.sq[r as usize] == rsq)
    };
    let wk = Some((Color::White, Kind::King));
    let wr = Some((Color::White, Kind::Rook));
    let bk = Some((Color::Black, Kind::King));
    let br = Some((Color::Black, Kind::Rook));
    if !need(p.castle[WK], 4, wk, 7, wr)
        || !need(p.castle[WQ], 4, wk, 0, wr)
        || !need(p.castle[BK], 60, bk, 63, br)
        || !need(p.castle[BQ], 60, bk, 56, br)
    {
        return Err("castling right without king and rook at home");
    }
    if let Some(t) = p.ep {
        let (want_rank, pawn_rank, from_rank, mover) = if p.stm == Color::White {
            (5, 4, 6, Color::Black)
        } else {
            (2, 3, 1, Color::White)
        };
        if rank_of(t) != want_rank {
            return Err("ep target on wrong rank");
        }
        let f = file_of(t);
        if p.sq[(pawn_rank * 8 + f) as usize] != Some((mover, Kind::Pawn)) {
            return Err("no double-stepped pawn in front of ep target");
        }
        if p.sq[t as usize].is_some() || p.sq[(from_rank * 8 + f) as usize].is_some() {
            return Err("ep target or origin square occupied");
        }
    }
    Ok(())
}

pub fn is_legal_position(p: &Pos) -> bool {
    legal_position_reason(p).is_ok()
}

/// A legal en-passant capture exists in this position.
pub fn ep_capturable(p: &Pos) -> bool {
    p.ep.is_some() && legal_moves(p).into_iter().any(|m| is_ep_capture(p, m))
}

pub fn perft(p: &Pos, depth: u32) -> u64 {
    if depth == 0 {
        return 1;
    }
    let ms = legal_moves(p);
    if depth == 1 {
        return ms.len() as u64;
    }
    ms.into_iter().map(|m| perft(&apply(p, m), depth - 1)).sum()
}

/// Colour mirror: ranks flipped, colours and side to move swapped, rights and ep mapped.
pub fn mirror(p: &Pos) -> Pos {
    let mut n = Pos::empty();
    for s in 0..64u8 {
        if let Some((c, k)) = p.sq[s as usize] {
            let t = (7 - rank_of(s)) * 8 + file_of(s);
            n.sq[t as usize] = Some((c.other(), k));
        }
    }
    n.stm = p.stm.other();
    n.castle = [p.castle[BK], p.castle[BQ], p.castle[WK], p.castle[WQ]];
    n.ep = p.ep.map(|t| ((7 - rank_of(t)) * 8 + file_of(t)) as u8);
    n
}

pub fn mirror_mv(m: Mv) -> Mv {
    let f = |s: u8| ((7 - rank_of(s)) * 8 + file_of(s)) as u8;
    Mv { from: f(m.from), to: f(m.to), promo: m.promo }
}

/// Budgeted mate solver. `None` = budget exhausted (undecided).
pub struct Solver {
    pub budget: u64,
    pub nodes: u64,
}

impl Solver {
    pub fn new(budget: u64) -> Solver {
        Solver { budget, nodes: 0 }
    }

    fn tick(&mut self) -> Option<()> {
        self.nodes += 1;
        if self.nodes > self.budget {
            None
        } else {
            Some(())
        }
    }

    /// The side to move can force checkmate in at most `n` of its own moves.
    pub fn mate_in(&mut self, p: &Pos, n: u32) -> Option<bool> {
        if n == 0 {
            return Some(false);
        }
        self.tick()?;
        for m in legal_moves(p) {
            let q = apply(p, m);
            let replies = legal_moves(&q);
            if replies.is_empty() {
                if in_check(&q, q.stm) {
                    return Some(true);
                }
                continue; // stalemate
            }
            if n == 1 {
                continue;
            }
            let mut all = true;
            for r in replies {
                let q2 = apply(&q, r);
                if !self.mate_in(&q2, n - 1)? {
                    all = false;
                    break;
                }
            }
            if all {
                return Some(true);
            }
        }
        Some(false)
    }

    /// The side to move is checkmated now, or whatever it plays the opponent mates within `n`
    /// of the opponent's moves.
    pub fn mated_in(&mut self, p: &Pos, n: u32) -> Option<bool> {
        self.tick()?;
        let ms = legal_moves(p);
        if ms.is_empty() {
            return Some(in_check(p, p.stm));
        }
        if n == 0 {
            return Some(false);
        }
        for m in ms {
            let q = apply(p, m);
            if !self.mate_in(&q, n)? {
                return Some(false);
            }
        }
        Some(true)
    }
}

impl fmt::Debug for Pos {
    fn fmt(&self, f: &mut fmt::Formatter) -> fmt::Result {
        write!(f, "{}", self.to_fen())
    }
}

pub mod dtm;
pub mod selftest;
