//! Exact distance to mate for the three-man endings K+Q v K, K+R v K and K+P v K (with all four
//! promotions), built once per process by forward iteration over the oracle's own move
//! generation - independent of the engine. It turns every `score mate N` the engine prints on
//! such a root into a decidable claim, whatever N is (the budgeted solver stops at N = 3).
//!
//! Table layout (White is the side with the extra man; a Black attacker is looked up through the
//! colour mirror): index = ((wk * 64 + bk) * 64 + x) * 2 + (black to move), value = plies to mate
//! (White to move: White mates in that many plies, odd; Black to move: Black is mated in that
//! many plies, even, 0 = checkmated now) or `NONE` (drawn, or not a legal position).

use super::*;
use crate::par;
use std::sync::OnceLock;

pub const NONE: u8 = 255;

pub struct Dtm {
    q: Vec<u8>,
    r: Vec<u8>,
    p: Vec<u8>,
}

fn idx(wk: u8, bk: u8, x: u8, black_to_move: bool) -> usize {
    (((wk as usize * 64 + bk as usize) * 64 + x as usize) << 1) | black_to_move as usize
}

fn pos_of(kind: Kind, wk: u8, bk: u8, x: u8, black_to_move: bool) -> Option<Pos> {
    if wk == bk || wk == x || bk == x {
        return None;
    }
    if kind == Kind::Pawn && (x < 8 || x >= 56) {
        return None;
    }
    let mut p = Pos::empty();
    p.sq[wk as usize] = Some((Color::White, Kind::King));
    p.sq[bk as usize] = Some((Color::Black, Kind::King));
    p.sq[x as usize] = Some((Color::White, kind));
    p.stm = if black_to_move { Color::Black } else { Color::White };
    if is_legal_position(&p) {
        Some(p)
    } else {
        None
    }
}

/// (kind of White's extra man, wk, bk, x) of a three-man position with a White attacker.
fn key_of(p: &Pos) -> Option<(Kind, u8, u8, u8)> {
    let mut wk = None;
    let mut bk = None;
    let mut extra = None;
    let mut n = 0;
    for s in 0..64u8 {
        if let Some((c, k)) = p.sq[s as usize] {
            n += 1;
            match (c, k) {
                (Color::White, Kind::King) => wk = Some(s),
                (Color::Black, Kind::King) => bk = Some(s),
                (Color::White, k) => extra = Some((k, s)),
                _ => return None,
            }
        }
    }
    if n != 3 {
        return None;
    }
    let (k, x) = extra?;
    Some((k, wk?, bk?, x))
}

impl Dtm {
    fn table(&self, k: Kind) -> Option<&Vec<u8>> {
        match k {
            Kind::Queen => Some(&self.q),
            Kind::Rook => Some(&self.r),
            Kind::Pawn => Some(&self.p),
            _ => None,
        }
    }

    /// Value of a position with a White attacker (or two bare kings / a minor piece: drawn).
    fn raw(&self, p: &Pos) -> u8 {
        match key_of(p) {
            Some((k, wk, bk, x)) => match self.table(k) {
                Some(t) => t[idx(wk, bk, x, p.stm == Color::Black)],
                None => NONE,
            },
            None => NONE,
        }
    }

    /// `Some((attacker_to_move, plies))` when the position is a three-man K+Q/R/P v K position
    /// that is won for the side with the extra man: plies to mate with best play. `Some(None)`-like
    /// drawn positions come back as `Ok(None)`; positions outside the tables as `Err(())`.
    pub fn probe(&self, p: &Pos) -> Result<Option<(bool, u32)>, ()> {
        let men = p.sq.iter().filter(|x| x.is_some()).count();
        if men != 3 || p.ep.is_some() || p.castle.iter().any(|c| *c) {
            return Err(());
        }
        let white_attacks = p.sq.iter().any(|x| matches!(x, Some((Color::White, k)) if *k != Kind::King));
        let q = if white_attacks { p.clone() } else { mirror(p) };
        match key_of(&q) {
            Some((k, _, _, _)) if matches!(k, Kind::Queen | Kind::Rook | Kind::Pawn) => {}
            Some(_) => return Ok(None), // a lone minor piece cannot mate
            None => return Err(()),
        }
        let v = self.raw(&q);
        if v == NONE {
            Ok(None)
        } else {
            Ok(Some((q.stm == Color::White, v as u32)))
        }
    }

    /// Moves the side to move needs to force mate (None: it cannot).
    pub fn mate_in_moves(&self, p: &Pos) -> Result<Option<u32>, ()> {
        Ok(match self.probe(p)? {
            Some((true, plies)) => Some((plies + 1) / 2),
            _ => None,
        })
    }

    /// Moves within which the side to move is mated against best play (None: it is not lost).
    pub fn mated_in_moves(&self, p: &Pos) -> Result<Option<u32>, ()> {
        Ok(match self.probe(p)? {
            Some((false, plies)) => Some(plies / 2),
            _ => None,
        })
    }

    pub fn max_plies(&self, k: Kind) -> u32 {
        self.table(k).map(|t| t.iter().filter(|v| **v != NONE).map(|v| *v as u32).max().unwrap_or(0)).unwrap_or(0)
    }

    pub fn won_positions(&self, k: Kind) -> usize {
        self.table(k).map(|t| t.iter().filter(|v| **v != NONE).count()).unwrap_or(0)
    }
}

fn build(kind: Kind, done: &[(Kind, &Vec<u8>)]) -> Vec<u8> {
    let n = 64 * 64 * 64 * 2;
    let mut t = vec![NONE; n];
    // value of a child position (any material) as known so far
    let child = |t: &Vec<u8>, q: &Pos| -> u8 {
        match key_of(q) {
            Some((k, wk, bk, x)) => {
                let i = idx(wk, bk, x, q.stm == Color::Black);
                if k == kind {
                    t[i]
                } else {
                    done.iter().find(|(dk, _)| *dk == k).map(|(_, dt)| dt[i]).unwrap_or(NONE)
                }
            }
            None => NONE, // bare kings
        }
    };
    // ply 0: Black to move and checkmated
    let chunks = 64usize;
    let init: Vec<Vec<(usize, u8)>> = par::par_map(chunks, |wk| {
        let mut out = Vec::new();
        for bk in 0..64u8 {
            for x in 0..64u8 {
                if let Some(p) = pos_of(kind, wk as u8, bk, x, true) {
                    if legal_moves(&p).is_empty() && in_check(&p, Color::Black) {
                        out.push((idx(wk as u8, bk, x, true), 0u8));
                    }
                }
            }
        }
        out
    });
    for v in init {
        for (i, k) in v {
            t[i] = k;
        }
    }
    let mut k: u8 = 1;
    let mut idle = 0;
    while idle < 2 && k < 120 {
        let odd = k % 2 == 1;
        let tref = &t;
        let upd: Vec<Vec<usize>> = par::par_map(chunks, |wk| {
            let mut out = Vec::new();
            for bk in 0..64u8 {
                for x in 0..64u8 {
                    let i = idx(wk as u8, bk, x, !odd);
                    if tref[i] != NONE {
                        continue;
                    }
                    let p = match pos_of(kind, wk as u8, bk, x, !odd) {
                        Some(p) => p,
                        None => continue,
                    };
                    let ms = legal_moves(&p);
                    if ms.is_empty() {
                        continue;
                    }
                    if odd {
                        // White to move wins in k if some move leads to "Black mated in k-1"
                        if ms.iter().any(|m| {
                            let q = apply(&p, *m);
                            q.stm == Color::Black && child(tref, &q) == k - 1
                        }) {
                            out.push(i);
                        }
                    } else {
                        // Black to move is mated in k if every move leads to a White win known so far
                        if ms.iter().all(|m| {
                            let q = apply(&p, *m);
                            let v = child(tref, &q);
                            v != NONE && v < k
                        }) {
                            out.push(i);
                        }
                    }
                }
            }
            out
        });
        let mut changed = false;
        for v in upd {
            for i in v {
                t[i] = k;
                changed = true;
            }
        }
        idle = if changed { 0 } else { idle + 1 };
        k += 1;
    }
    t
}

static DTM: OnceLock<Dtm> = OnceLock::new();

/// The tables (built on first use: about two seconds on sixteen cores).
pub fn dtm() -> &'static Dtm {
    DTM.get_or_init(|| {
        let t0 = std::time::Instant::now();
        let q = build(Kind::Queen, &[]);
        let r = build(Kind::Rook, &[]);
        let p = build(Kind::Pawn, &[(Kind::Queen, &q), (Kind::Rook, &r)]);
        if std::env::var("VERIF_DEBUG").is_ok() {
            eprintln!("dtm tables built in {:.1} s", t0.elapsed().as_secs_f64());
        }
        Dtm { q, r, p }
    })
}

/// Known facts about these endings: the longest mates are 10 (KQK), 16 (KRK) and 28 (KPK) moves,
/// and a handful of positions with published distances.
pub fn selftest() -> Result<String, String> {
    let d = dtm();
    let (mq, mr, mp) = (d.max_plies(Kind::Queen), d.max_plies(Kind::Rook), d.max_plies(Kind::Pawn));
    if (mq + 1) / 2 != 10 || (mr + 1) / 2 != 16 || (mp + 1) / 2 != 28 {
        return Err(format!("longest mates in moves: KQK {} KRK {} KPK {} (expected 10, 16, 28)", (mq + 1) / 2, (mr + 1) / 2, (mp + 1) / 2));
    }
    for fen in ["7k/5Q2/6K1/8/8/8/8/8 w - -", "8/8/8/8/8/8/k1K5/7Q w - -", "7k/8/4K3/8/8/8/8/6Q1 w - -", "k7/8/1K6/8/8/8/8/7R w - -", "8/8/8/8/8/k7/2K5/1R6 b - -"] {
        let p = Pos::parse_fen(fen)?;
        if p.stm == Color::White {
            let got = d.mate_in_moves(&p).map_err(|_| "probe refused a three-man position")?;
            let by_solver = (1..=3u32).find(|n| Solver::new(5_000_000).mate_in(&p, *n) == Some(true));
            if got != by_solver {
                return Err(format!("{}: table says mate in {:?}, full-width solver says {:?}", fen, got, by_solver));
            }
        }
    }
    // random agreement with the full-width solver on short mates, both colours
    let mut rng = crate::rng::Rng::new(0xD7);
    let mut n = 0;
    let mut tries = 0;
    while n < 300 && tries < 200_000 {
        tries += 1;
        let kind = *rng.pick(&[Kind::Queen, Kind::Rook, Kind::Pawn]);
        let mut p = Pos::empty();
        let (a, b, c) = (rng.below(64) as usize, rng.below(64) as usize, rng.below(64) as usize);
        if a == b || a == c || b == c {
            continue;
        }
        let att = if rng.chance(1, 2) { Color::White } else { Color::Black };
        p.sq[a] = Some((att, Kind::King));
        p.sq[b] = Some((att.other(), Kind::King));
        p.sq[c] = Some((att, kind));
        p.stm = if rng.chance(1, 2) { Color::White } else { Color::Black };
        if !is_legal_position(&p) {
            continue;
        }
        if p.stm == att {
            let got = d.mate_in_moves(&p).map_err(|_| "probe refused")?;
            let short = (1..=3u32).find(|k| Solver::new(3_000_000).mate_in(&p, *k) == Some(true));
            match (got, short) {
                (Some(g), Some(s)) if g == s => n += 1,
                (Some(g), None) if g > 3 => {}
                (None, None) => {}
                _ => return Err(format!("{}: table {:?} vs solver {:?}", p.to_fen(), got, short)),
            }
        } else {
            let got = d.mated_in_moves(&p).map_err(|_| "probe refused")?;
            let short = (0..=3u32).find(|k| Solver::new(3_000_000).mated_in(&p, *k) == Some(true));
            match (got, short) {
                (Some(g), Some(s)) if g == s => n += 1,
                (Some(g), None) if g > 3 => {}
                (None, None) => {}
                _ => return Err(format!("{}: table mated-in {:?} vs solver {:?}", p.to_fen(), got, short)),
            }
        }
    }
    Ok(format!("distance-to-mate tables: KQK {} won positions (longest {} moves), KRK {} ({}), KPK {} ({}); {} short mates agree with the full-width solver", d.won_positions(Kind::Queen), (mq + 1) / 2, d.won_positions(Kind::Rook), (mr + 1) / 2, d.won_positions(Kind::Pawn), (mp + 1) / 2, n))
}
