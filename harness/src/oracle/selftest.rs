//! Validation of the oracle against *published* data only (never against Walleye).

use super::*;

pub struct PerftCase {
    pub fen: &'static str,
    pub counts: &'static [u64],
}

/// chessprogramming.org "Perft Results" positions 1-6 (+ mirrored 4).
pub const PUBLISHED: &[PerftCase] = &[
    PerftCase { fen: "rnbqkbnr/pppppppp/8/8/8/8/PPPPPPPP/RNBQKBNR w KQkq -", counts: &[20, 400, 8902, 197281, 4865609] },
    PerftCase { fen: "r3k2r/p1ppqpb1/bn2pnp1/3PN3/1p2P3/2N2Q1p/PPPBBPPP/R3K2R w KQkq -", counts: &[48, 2039, 97862, 4085603] },
    PerftCase { fen: "8/2p5/3p4/KP5r/1R3p1k/8/4P1P1/8 w - -", counts: &[14, 191, 2812, 43238, 674624] },
    PerftCase { fen: "r3k2r/Pppp1ppp/1b3nbN/nP6/BBP1P3/q4N2/Pp1P2PP/R2Q1RK1 w kq -", counts: &[6, 264, 9467, 422333] },
    PerftCase { fen: "r2q1rk1/pP1p2pp/Q4n2/bbp1p3/Np6/1B3NBn/pPPP1PPP/R3K2R b KQ -", counts: &[6, 264, 9467, 422333] },
    PerftCase { fen: "rnbq1k1r/pp1Pbppp/2p5/8/2B5/8/PPP1NnPP/RNBQK2R w KQ -", counts: &[44, 1486, 62379, 2103487] },
    PerftCase { fen: "r4rk1/1pp1qppp/p1np1n2/2b1p1B1/2B1P1b1/P1NP1N2/1PP1QPPP/R4RK1 w - -", counts: &[46, 2079, 89890, 3894594] },
];

/// Well-known edge-case suite: (fen, depth, total at that depth).
pub const EDGE: &[(&str, u32, u64)] = &[
    ("3k4/3p4/8/K1P4r/8/8/8/8 b - -", 6, 1134888),
    ("8/8/4k3/8/2p5/8/B2P2K1/8 w - -", 6, 1015133),
    ("8/8/1k6/2b5/2pP4/8/5K2/8 b - d3", 6, 1440467),
    ("5k2/8/8/8/8/8/8/4K2R w K -", 6, 661072),
    ("3k4/8/8/8/8/8/8/R3K3 w Q -", 6, 803711),
    ("r3k2r/1b4bq/8/8/8/8/7B/R3K2R w KQkq -", 4, 1274206),
    ("r3k2r/8/3Q4/8/8/5q2/8/R3K2R b KQkq -", 4, 1720476),
    ("2K2r2/4P3/8/8/8/8/8/3k4 w - -", 6, 3821001),
    ("8/8/1P2K3/8/2n5/1q6/8/5k2 b - -", 5, 1004658),
    ("4k3/1P6/8/8/8/8/K7/8 w - -", 6, 217342),
    ("8/P1k5/K7/8/8/8/8/8 w - -", 6, 92683),
    ("K1k5/8/P7/8/8/8/8/8 w - -", 6, 2217),
    ("8/k1P5/8/1K6/8/8/8/8 w - -", 7, 567584),
    ("8/8/2k5/5q2/5n2/8/5K2/8 b - -", 4, 23527),
];

fn moves_set(p: &Pos) -> Vec<String> {
    let mut v: Vec<String> = legal_moves(p).iter().map(|m| m.to_string()).collect();
    v.sort();
    v
}

/// `full` = all published depths (several seconds, 16 threads); otherwise a sub-second subset.
pub fn run(full: bool) -> Result<String, String> {
    let mut jobs: Vec<(String, u32, u64)> = Vec::new();
    for c in PUBLISHED {
        let maxd = if full { c.counts.len() } else { c.counts.len().min(3) };
        for d in 1..=maxd {
            jobs.push((c.fen.to_string(), d as u32, c.counts[d - 1]));
        }
    }
    for (fen, d, n) in EDGE {
        if full || *n < 30_000 {
            jobs.push((fen.to_string(), *d, *n));
        }
    }
    // heavy jobs first
    jobs.sort_by_key(|j| std::cmp::Reverse(j.2));
    let next = std::sync::atomic::AtomicUsize::new(0);
    let errs = std::sync::Mutex::new(Vec::<String>::new());
    let total = std::sync::atomic::AtomicU64::new(0);
    std::thread::scope(|s| {
        for _ in 0..16 {
            s.spawn(|| loop {
                let i = next.fetch_add(1, std::sync::atomic::Ordering::Relaxed);
                if i >= jobs.len() {
                    break;
                }
                let (fen, d, want) = &jobs[i];
                let p = Pos::parse_fen(fen).unwrap();
                let got = perft(&p, *d);
                total.fetch_add(got, std::sync::atomic::Ordering::Relaxed);
                if got != *want {
                    errs.lock().unwrap().push(format!("perft({}, {}) = {} want {}", fen, d, got, want));
                }
            });
        }
    });
    let mut errs = errs.into_inner().unwrap();

    // hand-written rule cases -------------------------------------------------------------------
    let mut expect = |fen: &str, mv: &str, present: bool, why: &str| {
        let p = Pos::parse_fen(fen).unwrap();
        let has = moves_set(&p).contains(&mv.to_string());
        if has != present {
            errs.push(format!("{}: {} expected present={} ({})", fen, mv, present, why));
        }
    };
    // castling beside / through squares attacked by the enemy king
    expect("8/8/8/8/8/8/6k1/4K2R w K -", "e1g1", false, "f1,g1 attacked by king g2");
    expect("8/8/8/8/8/8/7k/4K2R w K -", "e1g1", false, "g1 attacked by king h2");
    expect("8/8/8/8/8/8/2k5/R3K3 w Q -", "e1c1", false, "d1 attacked by king c2");
    expect("8/8/8/8/8/8/1k6/R3K3 w Q -", "e1c1", false, "c1 attacked by king b2");
    expect("8/8/8/8/8/8/k7/R3K3 w Q -", "e1c1", true, "only b1 attacked (king a2): allowed");
    expect("4k2r/6K1/8/8/8/8/8/8 b k -", "e8g8", false, "f8,g8 attacked by king g7");
    expect("r3k3/2K5/8/8/8/8/8/8 b q -", "e8c8", false, "d8,c8 attacked by king c7");
    expect("r3k3/K7/8/8/8/8/8/8 b q -", "e8c8", true, "king a7 attacks only b8");
    // castling out of / through / into check by pieces; rook attacked is fine
    expect("4k3/8/8/8/8/8/4r3/R3K2R w KQ -", "e1g1", false, "in check");
    expect("4k3/8/8/8/8/8/5r2/R3K2R w KQ -", "e1g1", false, "f1 attacked");
    expect("4k3/8/8/8/8/8/5r2/R3K2R w KQ -", "e1c1", true, "queen side unaffected");
    expect("4k3/8/8/8/8/8/6r1/R3K2R w KQ -", "e1g1", false, "g1 attacked");
    expect("4k3/8/8/8/8/8/7r/R3K2R w KQ -", "e1g1", true, "only the rook is attacked");
    expect("4k3/8/8/8/8/8/1r6/R3K2R w KQ -", "e1c1", true, "b1 attacked: allowed");
    expect("4k3/8/8/8/8/8/8/R3K1NR w KQ -", "e1g1", false, "blocked");
    expect("4k3/8/8/8/8/8/8/RN2K2R w KQ -", "e1c1", false, "b1 occupied");
    expect("4k3/8/8/8/8/8/8/R3K2R w - -", "e1g1", false, "no right");
    // en passant
    expect("4k3/8/8/3pP3/8/8/8/4K3 w - d6", "e5d6", true, "plain ep");
    expect("4k3/8/8/3pP3/8/8/8/4K3 w - -", "e5d6", false, "no target");
    expect("8/8/8/K2pP2r/8/8/8/4k3 w - d6", "e5d6", false, "ep exposes king along the rank");
    expect("4k3/8/8/8/3pP3/8/8/4K3 b - e3", "d4e3", true, "black ep");
    expect("4r3/8/8/3pP3/8/8/8/4K2k w - d6", "e5d6", false, "pinned on the file: leaves e-file");
    // promotion set
    let p = Pos::parse_fen("1n2k3/P7/8/8/8/8/8/4K3 w - -").unwrap();
    let ms = moves_set(&p);
    for m in ["a7a8q", "a7a8r", "a7a8b", "a7a8n", "a7b8q", "a7b8r", "a7b8b", "a7b8n"] {
        if !ms.contains(&m.to_string()) {
            errs.push(format!("promotion move {} missing", m));
        }
    }
    // apply: rights, ep, castle rook hop, ep victim removal
    let chk = |errs: &mut Vec<String>, fen: &str, mv: &str, want: &str| {
        let p = Pos::parse_fen(fen).unwrap();
        let m = parse_mv(mv).unwrap();
        if !legal_moves(&p).contains(&m) {
            errs.push(format!("apply case: {} not legal in {}", mv, fen));
            return;
        }
        let got = apply(&p, m).to_fen();
        if got != want {
            errs.push(format!("apply({}, {}) = {} want {}", fen, mv, got, want));
        }
    };
    chk(&mut errs, "r3k2r/8/8/8/8/8/8/R3K2R w KQkq -", "e1g1", "r3k2r/8/8/8/8/8/8/R4RK1 b kq -");
    chk(&mut errs, "r3k2r/8/8/8/8/8/8/R3K2R w KQkq -", "e1c1", "r3k2r/8/8/8/8/8/8/2KR3R b kq -");
    chk(&mut errs, "r3k2r/8/8/8/8/8/8/R3K2R b KQkq -", "e8g8", "r4rk1/8/8/8/8/8/8/R3K2R w KQ -");
    chk(&mut errs, "r3k2r/8/8/8/8/8/8/R3K2R b KQkq -", "e8c8", "2kr3r/8/8/8/8/8/8/R3K2R w KQ -");
    chk(&mut errs, "r3k2r/8/8/8/8/8/8/R3K2R w KQkq -", "h1h8", "r3k2R/8/8/8/8/8/8/R3K3 b Qq -");
    chk(&mut errs, "r3k2r/8/8/8/8/8/8/R3K2R w KQkq -", "a1a8", "R3k2r/8/8/8/8/8/8/4K2R b Kk -");
    chk(&mut errs, "r3k2r/8/8/8/8/8/8/R3K2R w KQkq -", "e1e2", "r3k2r/8/8/8/8/8/4K3/R6R b kq -");
    chk(&mut errs, "rnbqkbnr/pppppppp/8/8/8/8/PPPPPPPP/RNBQKBNR w KQkq -", "e2e4", "rnbqkbnr/pppppppp/8/8/4P3/8/PPPP1PPP/RNBQKBNR b KQkq e3");
    chk(&mut errs, "4k3/8/8/3pP3/8/8/8/4K3 w - d6", "e5d6", "4k3/8/3P4/8/8/8/8/4K3 b - -");
    chk(&mut errs, "4k3/8/8/8/3pP3/8/8/4K3 b - e3", "d4e3", "4k3/8/8/8/8/4p3/8/4K3 w - -");
    chk(&mut errs, "1n2k3/P7/8/8/8/8/8/4K3 w - -", "a7b8n", "1N2k3/8/8/8/8/8/8/4K3 b - -");
    // fen round trip + legality predicate
    for c in PUBLISHED {
        let p = Pos::parse_fen(c.fen).unwrap();
        if p.to_fen() != c.fen {
            errs.push(format!("fen round trip {} -> {}", c.fen, p.to_fen()));
        }
        if !is_legal_position(&p) {
            errs.push(format!("published position judged illegal: {}", c.fen));
        }
        let m = mirror(&p);
        if mirror(&m) != p {
            errs.push(format!("mirror not an involution on {}", c.fen));
        }
        if legal_moves(&m).len() != legal_moves(&p).len() {
            errs.push(format!("mirror changes move count on {}", c.fen));
        }
    }
    for (fen, why) in [
        ("4k3/8/8/8/8/8/8/8 w - -", "one king"),
        ("4k3/8/8/8/8/8/4r3/4K3 b - -", "side not to move in check"),
        ("P3k3/8/8/8/8/8/8/4K3 w - -", "pawn on last rank"),
        ("4k3/8/8/8/8/8/8/4K2R w Q -", "right without rook"),
        ("4k3/8/8/8/8/8/8/3K3R w K -", "right without king at home"),
        ("4k3/8/8/8/4P3/8/8/4K3 w - e3", "ep target for the wrong side"),
        ("4k3/8/8/8/4P3/8/4P3/4K3 b - e3", "origin square occupied"),
        ("4k3/8/8/8/8/8/8/4K3 b - e3", "no pawn"),
        ("3kK3/8/8/8/8/8/8/8 w - -", "adjacent kings"),
    ] {
        if is_legal_position(&Pos::parse_fen(fen).unwrap()) {
            errs.push(format!("illegal position accepted ({}): {}", why, fen));
        }
    }
    // mate solver on textbook positions
    let mut s = Solver::new(5_000_000);
    let t = |fen: &str| Pos::parse_fen(fen).unwrap();
    if s.mate_in(&t("6k1/5ppp/8/8/8/8/5PPP/3R2K1 w - -"), 1) != Some(true) {
        errs.push("back-rank mate in 1 not found".into());
    }
    if s.mate_in(&t("6k1/5ppp/8/8/8/8/5PPP/3R2K1 w - -"), 0) != Some(false) {
        errs.push("mate_in(0) must be false".into());
    }
    if s.mate_in(&t("7k/8/5K2/8/8/8/8/6Q1 w - -"), 1) != Some(true) {
        errs.push("KQK: Qg7 mate expected with king f6".into());
    }
    if s.mate_in(&t("7k/8/4K3/8/8/8/8/6Q1 w - -"), 1) != Some(false) {
        errs.push("KQK: no mate in 1 expected with king e6".into());
    }
    if s.mate_in(&t("7k/8/4K3/8/8/8/8/6Q1 w - -"), 2) != Some(true) {
        errs.push("KQK: mate in 2 expected (Kf7 Kh7 Qh1)".into());
    }
    if s.mated_in(&t("7k/5K2/8/8/8/8/8/6Q1 b - -"), 1) != Some(true) {
        errs.push("KQK: black to move must be mated in 1".into());
    }
    if s.mated_in(&t("7k/5QQ1/8/8/8/8/8/K7 b - -"), 0) != Some(true) {
        errs.push("checkmate position must be mated_in(0)".into());
    }
    if s.mated_in(&t("k7/2Q5/1K6/8/8/8/8/8 b - -"), 3) != Some(false) {
        errs.push("stalemate is not mated".into());
    }
    if !is_stalemate(&t("k7/2Q5/1K6/8/8/8/8/8 b - -")) || !is_checkmate(&t("7k/5QQ1/8/8/8/8/8/K7 b - -")) {
        errs.push("terminal detection".into());
    }
    // attack geometry spot checks
    let a = t("4k3/8/8/8/3Q4/8/8/4K3 w - -");
    for (sq, want) in [("d8", true), ("h8", true), ("a1", true), ("g1", true), ("e6", false), ("d4", false), ("h4", true), ("a7", true)] {
        if attacked(&a, parse_sq(sq).unwrap(), Color::White) != want {
            errs.push(format!("queen d4 attack on {} expected {}", sq, want));
        }
    }
    let b = t("4k3/8/8/8/3Q4/4p3/8/4K3 w - -");
    if attacked(&b, parse_sq("g1").unwrap(), Color::White) {
        // d4-e3 blocked: g1 is not attacked by the queen; king e1 does not attack g1
        errs.push("blocker on e3 must stop the d4-g1 diagonal".into());
    }
    if !attacked(&b, parse_sq("d2").unwrap(), Color::Black) || !attacked(&b, parse_sq("f2").unwrap(), Color::Black) || attacked(&b, parse_sq("e2").unwrap(), Color::Black) {
        errs.push("black pawn e3 attacks d2,f2 and not e2".into());
    }
    if errs.is_empty() {
        Ok(format!("oracle self-test ok: {} perft jobs, {} leaf nodes, rule cases passed", jobs.len(), total.load(std::sync::atomic::Ordering::Relaxed)))
    } else {
        Err(errs.join("\n"))
    }
}
