//! Minimal work-sharing pool on scoped threads + quiet panic capture.
use std::cell::RefCell;
use std::panic::{self, AssertUnwindSafe};
use std::sync::atomic::{AtomicUsize, Ordering};
use std::sync::Mutex;

thread_local! {
    static LAST_PANIC: RefCell<Option<String>> = const { RefCell::new(None) };
    static QUIET: RefCell<bool> = const { RefCell::new(false) };
}

/// Install a hook that records message + location per thread; prints only outside `catch`.
pub fn install_panic_hook() {
    let default = panic::take_hook();
    panic::set_hook(Box::new(move |info| {
        let msg = if let Some(s) = info.payload().downcast_ref::<&str>() {
            s.to_string()
        } else if let Some(s) = info.payload().downcast_ref::<String>() {
            s.clone()
        } else {
            "<non-string panic payload>".to_string()
        };
        let loc = info.location().map(|l| format!("{}:{}", l.file(), l.line())).unwrap_or_default();
        let quiet = QUIET.with(|q| *q.borrow());
        LAST_PANIC.with(|p| *p.borrow_mut() = Some(format!("{} @ {}", msg, loc)));
        let _ = &default;
        if !quiet {
            // a panic outside `catch` is a harness bug: one line, no backtrace spam
            let _ = &default;
            eprintln!("harness panic: {} @ {}", msg, loc);
        }
    }));
}

/// Run `f`, turning a panic into Err("message @ file:line").
pub fn catch<T>(f: impl FnOnce() -> T) -> Result<T, String> {
    QUIET.with(|q| *q.borrow_mut() = true);
    let r = panic::catch_unwind(AssertUnwindSafe(f));
    QUIET.with(|q| *q.borrow_mut() = false);
    match r {
        Ok(v) => Ok(v),
        Err(_) => Err(LAST_PANIC.with(|p| p.borrow_mut().take()).unwrap_or_else(|| "panic".into())),
    }
}

pub fn threads() -> usize {
    std::env::var("VERIF_THREADS").ok().and_then(|s| s.parse().ok()).unwrap_or(16)
}

/// Apply `f(job_index)` for all jobs on `threads()` workers; results in job order.
pub fn par_map<T: Send, F: Fn(usize) -> T + Sync>(n: usize, f: F) -> Vec<T> {
    let next = AtomicUsize::new(0);
    let out: Mutex<Vec<Option<T>>> = Mutex::new((0..n).map(|_| None).collect());
    let nt = threads().min(n.max(1));
    std::thread::scope(|s| {
        for _ in 0..nt {
            s.spawn(|| loop {
                let i = next.fetch_add(1, Ordering::Relaxed);
                if i >= n {
                    break;
                }
                let r = f(i);
                out.lock().unwrap()[i] = Some(r);
            });
        }
    });
    out.into_inner().unwrap().into_iter().map(|x| x.expect("job did not finish")).collect()
}
