//! wmon - runtime monitors for Walleye. The engine's own source files are compiled into this
//! crate straight from /repo's working tree (cfg walleye_verif is set by build.rs).
#![allow(dead_code, unused_imports, unused_variables, clippy::all)]

include!(concat!(env!("OUT_DIR"), "/engine_mods.rs"));

mod bb;
mod ev;
mod glue;
mod mon;
mod oracle;
mod par;
mod rng;
mod sess;
mod twothread;
mod workload;

use ev::Tier;

fn usage() -> ! {
    eprintln!("usage: wmon selftest [full] | wmon check <Cxx> <quick|thorough> | wmon replay <Cxx> <file>");
    std::process::exit(2)
}

fn main() {
    par::install_panic_hook();
    let args: Vec<String> = std::env::args().collect();
    if args.len() < 2 {
        usage();
    }
    let seed: u64 = std::env::var("VERIF_SEED").ok().and_then(|s| s.trim().parse::<i64>().ok()).map(|v| v as u64).unwrap_or(1);
    match args[1].as_str() {
        "setup" => {
            // build everything the checks need (harness is built by bin/check itself), then self-test
            for (name, r) in [("plain binary", bb::build_plain()), ("hooked binary", bb::build_hooked())] {
                match r {
                    Ok(p) => println!("built {}: {}", name, p.display()),
                    Err(e) => {
                        println!("INCONCLUSIVE setup: {}", e);
                        std::process::exit(2);
                    }
                }
            }
            match oracle::selftest::run(true).and_then(|m| oracle::dtm::selftest().map(|d| format!("{}\n{}", m, d))) {
                Ok(msg) => println!("{}", msg),
                Err(e) => {
                    println!("INCONCLUSIVE harness self-test failed:\n{}", e);
                    std::process::exit(2);
                }
            }
        }
        "selftest" => {
            let full = args.get(2).map(|s| s == "full").unwrap_or(false);
            match oracle::selftest::run(full).and_then(|m| if full { oracle::dtm::selftest().map(|d| format!("{}\n{}", m, d)) } else { Ok(m) }) {
                Ok(msg) => println!("{}", msg),
                Err(e) => {
                    println!("INCONCLUSIVE harness self-test failed:\n{}", e);
                    std::process::exit(2);
                }
            }
        }
        "check" => {
            if args.len() < 4 {
                usage();
            }
            let tier = match std::env::var("VERIF_TIER").ok().as_deref().or(Some(args[3].as_str())) {
                Some("quick") => Tier::Quick,
                Some("thorough") => Tier::Thorough,
                _ => usage(),
            };
            let tier = match args[3].as_str() {
                "quick" => Tier::Quick,
                "thorough" => Tier::Thorough,
                _ => tier,
            };
            if let Err(e) = oracle::selftest::run(false) {
                println!("INCONCLUSIVE harness self-test failed:\n{}", e);
                std::process::exit(2);
            }
            let prop = args[2].clone();
            let code = match std::panic::catch_unwind(move || mon::run_check(&prop, tier, seed)) {
                Ok(c) => c,
                Err(_) => {
                    println!("INCONCLUSIVE harness panicked (see stderr); no verdict");
                    2
                }
            };
            std::process::exit(code);
        }
        "oracle" => {
            // wmon oracle "<fen>" [move ...] : debugging aid - oracle view of a position
            let mut p = oracle::Pos::parse_fen(&args[2]).expect("fen");
            for m in &args[3..] {
                let mv = oracle::parse_mv(m).expect("move");
                println!("{} legal: {}", m, oracle::legal_moves(&p).contains(&mv));
                p = oracle::apply(&p, mv);
            }
            println!("fen {} legal_position {:?} in_check {}", p.to_fen(), oracle::legal_position_reason(&p), oracle::in_check(&p, p.stm));
            let ms = oracle::legal_moves(&p);
            println!("{} legal moves:", ms.len());
            for m in ms {
                let q = oracle::apply(&p, m);
                let mut s = oracle::Solver::new(2_000_000);
                println!("  {} {}{}{}", m, if oracle::is_checkmate(&q) { "MATE " } else { "" }, if oracle::is_stalemate(&q) { "STALEMATE " } else { "" }, if s.mate_in(&q, 1) == Some(true) { "(opponent then mates in 1)" } else { "" });
            }
            let eb = glue::engine_from_pos(&p).unwrap();
            let h = zobrist::ZobristHasher::create_zobrist_hasher();
            let em: Vec<String> = move_generation::generate_moves(&eb, move_generation::MoveGenerationMode::AllMoves, &h).iter().map(|s| glue::mv_of(s).map(|m| m.to_string()).unwrap_or_default()).collect();
            println!("engine generates {}: {}", em.len(), em.join(" "));
        }
        "search" => {
            // wmon search "<position command>" <depth limit> [expiry index] : event list of one real search
            let hist = mon::replay::history_from_command(&args[2]).expect("position command");
            let h = zobrist::ZobristHasher::create_zobrist_hasher();
            let root = mon::search::make_root(hist, &h).expect("root");
            let d: u8 = args[3].parse().unwrap();
            let k: Option<u64> = args.get(4).and_then(|x| x.parse().ok());
            let r = mon::searchlib::run_search(&root.board, &root.table, k, d);
            for l in mon::searchlib::nev_text(&mon::searchlib::normalise(&r.report.events)) {
                println!("{}", l);
            }
            println!("queries {} panic {:?}", r.report.queries, r.panic);
        }
        "go-job" => {
            let seed: u64 = args.get(2).and_then(|s| s.parse().ok()).unwrap_or(1);
            let n: usize = args.get(3).and_then(|s| s.parse().ok()).unwrap_or(3);
            let scale = args.get(4).map(|s| s.as_str()).unwrap_or("native");
            std::process::exit(twothread::run(seed, n, scale));
        }
        "replay" => {
            if args.len() < 4 {
                usage();
            }
            // a case observed on the build with the shipped profile is replayed on that build
            if std::env::var("VERIF_SHADOW").is_err() {
                let shipped_case = std::fs::read_to_string(&args[3]).ok().and_then(|t| serde_json::from_str::<serde_json::Value>(&t).ok()).map(|v| v["case"]["profile"] == "shipped").unwrap_or(false);
                if shipped_case {
                    if let Ok(bin) = std::env::var("VERIF_SHIPPED_WMON") {
                        let st = std::process::Command::new(bin).args(["replay", &args[2], &args[3]]).env("VERIF_SHADOW", "2").status();
                        std::process::exit(st.ok().and_then(|s| s.code()).unwrap_or(2));
                    }
                }
            }
            let code = mon::run_replay(&args[2], &args[3]);
            std::process::exit(code);
        }
        _ => usage(),
    }
}
