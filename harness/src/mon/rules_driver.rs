//! Workload drivers for the rules-layer monitors (C01, C02, C04, C05, C06, C13).

use super::rules::*;
use crate::board::BoardState;
use crate::draw_table::DrawTable;
use crate::ev::{Acc, Run, Tier};
use crate::glue::*;
use crate::move_generation::{generate_moves, MoveGenerationMode};
use crate::oracle::*;
use crate::par;
use crate::rng::{hash64, Rng};
use crate::workload::{self, Policy};
use crate::zobrist::ZobristHasher;
use serde_json::{json, Value};

#[derive(Clone)]
enum Job {
    Walk { start: usize, policy: Policy, stream: u64 },
    Synth { n: usize, stream: u64 },
    CastleFamily { from: usize, to: usize },
    EpFamily { n: usize, stream: u64 },
    C06Family { from: usize, to: usize },
    C06KingPairs,
    C06Random { n: usize, stream: u64 },
    C05Transpositions { n: usize, stream: u64 },
    C05Flips { n: usize, stream: u64 },
    C05Constants,
    C04Families,
    C02PromoThenSpecial,
    Tree { start: usize, synth_stream: Option<u64> },
    /// every legal position with the two kings and one more piece (exhaustive when stride = 1)
    ThreePiece { wk: u8, stride: usize },
}

pub fn run(prop: Prop, tier: Tier, seed: u64) -> i32 {
    let mut run = Run::new(prop.id(), tier, seed, "exploration");
    run.rule = rule_text(prop);
    run.assumptions = vec![
        "oracle = independent rules model validated only against published perft totals (6 standard positions + 14 edge cases) and hand-written castling/ep/promotion cases; agreement with Walleye is never used to validate it".into(),
        "legal position = exactly the predicate in C01's statement (no reachability analysis)".into(),
        "ep target is set after every double step in both models (old-style FEN), so targets without a capturing pawn are part of the compared state".into(),
        "harness profile has overflow-checks and debug-assertions on; a panic inside the engine is reported as a violation of the driven property".into(),
    ];
    let starts = match workload::start_positions(seed, 30) {
        Ok(s) => s,
        Err(e) => {
            println!("INCONCLUSIVE harness: {}", e);
            return 2;
        }
    };
    let h = ZobristHasher::create_zobrist_hasher();
    let mut jobs: Vec<Job> = Vec::new();
    // volumes per property and tier -------------------------------------------------------------
    let (walks, synth_jobs, synth_n, ep_jobs, ep_n) = match (prop, tier) {
        (Prop::C01, Tier::Quick) => (3000, 64, 3000, 32, 2000),
        (Prop::C01, Tier::Thorough) => (40000, 640, 6000, 160, 6000),
        (Prop::C02, Tier::Quick) => (3000, 64, 3000, 32, 2000),
        (Prop::C02, Tier::Thorough) => (40000, 640, 6000, 160, 6000),
        (Prop::C04, Tier::Quick) => (6000, 0, 0, 0, 0),
        (Prop::C04, Tier::Thorough) => (100000, 0, 0, 0, 0),
        (Prop::C05, Tier::Quick) => (3000, 64, 2000, 32, 1000),
        (Prop::C05, Tier::Thorough) => (40000, 640, 4000, 160, 3000),
        (Prop::C06, Tier::Quick) => (1500, 32, 2000, 0, 0),
        (Prop::C06, Tier::Thorough) => (20000, 256, 4000, 0, 0),
        (Prop::C13, Tier::Quick) => (800, 48, 1500, 24, 1500),
        (Prop::C13, Tier::Thorough) => (12000, 480, 5000, 160, 5000),
    };
    let policies = [Policy::Mixed, Policy::Tactical, Policy::Uniform, Policy::Race, Policy::Shuffle, Policy::Tactical];
    for i in 0..walks {
        jobs.push(Job::Walk { start: i % starts.len(), policy: policies[(i / starts.len()) % policies.len()], stream: i as u64 });
    }
    for i in 0..synth_jobs {
        jobs.push(Job::Synth { n: synth_n, stream: 100_000 + i as u64 });
    }
    for i in 0..ep_jobs {
        jobs.push(Job::EpFamily { n: ep_n, stream: 200_000 + i as u64 });
    }
    if matches!(prop, Prop::C01 | Prop::C02 | Prop::C05) {
        let chunk = 4096;
        let mut from = 0;
        while from < workload::CASTLE_FAMILY_SIZE {
            jobs.push(Job::CastleFamily { from, to: (from + chunk).min(workload::CASTLE_FAMILY_SIZE) });
            from += chunk;
        }
    }
    if prop == Prop::C06 {
        let total = c06_family_size();
        let chunk = 20_000;
        let mut from = 0;
        while from < total {
            jobs.push(Job::C06Family { from, to: (from + chunk).min(total) });
            from += chunk;
        }
        jobs.push(Job::C06KingPairs);
        let rj = tier.pick(96, 1024);
        for i in 0..rj {
            jobs.push(Job::C06Random { n: 20_000, stream: 300_000 + i as u64 });
        }
    }
    if prop == Prop::C05 {
        let tj = tier.pick(64, 640);
        for i in 0..tj {
            jobs.push(Job::C05Transpositions { n: 300, stream: 400_000 + i as u64 });
            jobs.push(Job::C05Flips { n: 300, stream: 500_000 + i as u64 });
        }
        jobs.push(Job::C05Constants);
    }
    if prop == Prop::C04 {
        jobs.push(Job::C04Families);
    }
    if prop == Prop::C02 || prop == Prop::C01 {
        jobs.push(Job::C02PromoThenSpecial);
    }
    if matches!(prop, Prop::C01 | Prop::C02 | Prop::C05 | Prop::C06) {
        for i in 0..starts.len() {
            jobs.push(Job::Tree { start: i, synth_stream: None });
        }
        for i in 0..tier.pick(64u64, 1500) {
            jobs.push(Job::Tree { start: 0, synth_stream: Some(600_000 + i) });
        }
    }
    if matches!(prop, Prop::C01 | Prop::C02 | Prop::C05 | Prop::C06) {
        for wk in 0..64u8 {
            jobs.push(Job::ThreePiece { wk, stride: tier.pick(8, 1) });
        }
    }
    let results = par::par_map(jobs.len(), |i| {
        let mut acc = Acc::new();
        run_job(&jobs[i], prop, seed, &starts, &h, &mut acc);
        acc
    });
    for a in results {
        run.acc.merge(a, &["max_capture_chain", "max_walk_plies", "max_legal_captures_in_a_position", "max_legal_moves_in_a_position"]);
    }
    if matches!(prop, Prop::C01 | Prop::C02 | Prop::C05) {
        run.set("exhaustive_families", json!(["castling: 4 types x enemy king square x (none | one extra enemy piece of 5 kinds on any square), every legal member",
            if tier == Tier::Thorough { "all legal positions with two kings and one more piece (5 kinds x 2 colours x 2 sides to move, castling right set whenever king and rook are at home)" } else { "two kings + one piece: every 8th member (complete in the thorough tier)" }]));
    }
    if prop == Prop::C06 {
        run.set("exhaustive_families", json!(["king square x enemy attacker (5 kinds) x attacker square x (no blocker | blocker of 4 kinds on every between-square or 3 off-ray squares), both colours", "all ordered pairs of king squares"]));
    }
    if prop == Prop::C01 {
        cli_perft_part(&mut run, &starts);
    }
    if prop == Prop::C04 {
        // the real command loop of the binary: sessions of several related position commands
        // (repeated, continued, moves taken back, last moves replaced); the board and key the
        // handler leaves after each command against the oracle's view of that command alone
        super::timed::position_sessions(&mut run, "C04");
    }
    run.floor_distinct = 50;
    run.finish()
}

/// End-to-end through the real (guard-off, LTO, mimalloc) binary: `walleye --fen=<fen> -T -d D`
/// prints the sum of the move-list sizes of all nodes at depths 0..D-1; it must equal the oracle's
/// perft(1) + ... + perft(D). Counts can cancel where sets differ, so this only supplements the
/// set comparison - its value is that it observes the shipped build, not the harness build.
fn cli_perft_part(run: &mut Run, starts: &[Pos]) {
    let bin = match crate::bb::build_plain() {
        Ok(b) => b,
        Err(e) => {
            run.acc.inconclusive.push(e);
            return;
        }
    };
    let n = run.tier.pick(64usize, 600);
    let seed = run.seed;
    let mut rng = Rng::stream(seed, 0xC11F);
    let mut ps: Vec<Pos> = starts.to_vec();
    while ps.len() < n {
        ps.push(workload::synth_position(&mut rng));
    }
    ps.truncate(n);
    let res = par::par_map(ps.len(), |i| {
        let mut acc = Acc::new();
        let p = &ps[i];
        let pieces = p.sq.iter().filter(|x| x.is_some()).count();
        let d = if pieces <= 8 { 4 } else { 3 };
        let want: u64 = (1..=d).map(|k| perft(p, k)).sum();
        let fen = p.to_fen6(0, 1);
        acc.evaluations += 1;
        match crate::bb::run_cli(&bin, &[&format!("--fen={}", fen), "-T", "-d", &d.to_string()], 120_000) {
            Ok(o) if !o.timed_out => {
                let got = o.stdout.split("evaluated ").nth(1).and_then(|r| r.split(' ').next()).and_then(|x| x.parse::<u64>().ok());
                acc.count("cli_perft_runs", 1);
                if i == 0 {
                    acc.sample(json!({"cli": format!("walleye --fen='{}' -T -d {}", fen, d), "nodes": got, "oracle": want}));
                }
                if got != Some(want) {
                    acc.violation(
                        format!("C01|cli-perft|{}", p.to_fen()),
                        format!("real binary: `walleye --fen='{}' -T -d {}` reports {:?} generated moves, the rules give {} (stdout {:?}, stderr {:?})", fen, d, got, want, truncate(o.stdout.trim(), 120), truncate(o.stderr.trim(), 200)),
                        json!({"kind": "cli_perft", "property": "C01", "fen": fen, "depth": d}),
                    );
                }
            }
            Ok(_) => acc.inconclusive.push(format!("cli perft timed out on {}", fen)),
            Err(e) => acc.inconclusive.push(format!("cli perft could not run: {}", e)),
        }
        acc
    });
    for a in res {
        run.acc.merge(a, &[]);
    }
}

pub fn run_job(job: &Job, prop: Prop, seed: u64, starts: &[Pos], h: &ZobristHasher, acc: &mut Acc) {
    match job {
        Job::Walk { start, policy, stream } => {
            let mut rng = Rng::stream(seed, *stream);
            let mut rng2 = Rng::stream(seed, *stream ^ 0xFFFF_0000);
            let policy = *policy;
            let max_plies = 60 + rng.below(240) as usize;
            let mut moves_played: Vec<Mv> = Vec::new();
            let startp = starts[*start].clone();
            let mut choose = |p: &Pos, legal: &[Mv], _ply: usize| -> Option<Mv> {
                let m = workload::choose_move(&mut rng, p, legal, policy);
                moves_played.push(m);
                Some(m)
            };
            walk(&startp, max_plies, &mut choose, h, prop, &mut rng2, acc);
            acc.max("max_walk_plies", moves_played.len() as u64);
            acc.count("walk_plies", moves_played.len() as u64);
            acc.count("walks", 1);
            if *stream < 2 {
                acc.sample(json!({"walk_from": startp.to_fen(), "policy": format!("{:?}", policy), "plies": moves_played.len(),
                    "first_moves": moves_played.iter().take(12).map(|m| m.to_string()).collect::<Vec<_>>()}));
            }
            if prop == Prop::C04 {
                whole_line_check(&startp, &moves_played, h, acc);
            }
        }
        Job::Synth { n, stream } => {
            let mut rng = Rng::stream(seed, *stream);
            for k in 0..*n {
                let p = if k % 100 == 99 {
                    let p = workload::capture_storm_position(&mut rng);
                    let ms = legal_moves(&p);
                    acc.max("max_legal_captures_in_a_position", ms.iter().filter(|m| is_capture(&p, **m)).count() as u64);
                    acc.max("max_legal_moves_in_a_position", ms.len() as u64);
                    acc.count("capture_storm_positions", 1);
                    p
                } else {
                    workload::synth_position(&mut rng)
                };
                if k == 0 && *stream == 100_000 {
                    acc.sample(json!({"synthesised": p.to_fen()}));
                }
                position_check_pub(&p, h, prop, &mut rng, acc);
            }
            acc.count("synth_positions", *n as u64);
        }
        Job::EpFamily { n, stream } => {
            let mut rng = Rng::stream(seed, *stream);
            for k in 0..*n {
                let p = workload::ep_family(&mut rng);
                if k == 0 && *stream == 200_000 {
                    acc.sample(json!({"ep_family": p.to_fen()}));
                }
                position_check_pub(&p, h, prop, &mut rng, acc);
            }
            acc.count("ep_family_positions", *n as u64);
        }
        Job::CastleFamily { from, to } => {
            let mut rng = Rng::stream(seed, 0xCA57);
            for idx in *from..*to {
                if let Some(p) = workload::castle_family(idx) {
                    acc.count("castle_family_positions", 1);
                    if idx == 70_000 {
                        acc.sample(json!({"castle_family": p.to_fen()}));
                    }
                    position_check_pub(&p, h, prop, &mut rng, acc);
                }
            }
        }
        Job::C06Family { from, to } => {
            for idx in *from..*to {
                if let Some(p) = c06_family(idx) {
                    acc.count("c06_family_placements", 1);
                    c06_placement(&p, acc, idx % 50_021 == 0);
                }
            }
        }
        Job::C06KingPairs => {
            for a in 0..64u8 {
                for b in 0..64u8 {
                    if a == b {
                        continue;
                    }
                    let mut p = Pos::empty();
                    p.sq[a as usize] = Some((Color::White, Kind::King));
                    p.sq[b as usize] = Some((Color::Black, Kind::King));
                    acc.count("c06_king_pairs", 1);
                    c06_placement(&p, acc, a == 27 && b == 28);
                }
            }
        }
        Job::C06Random { n, stream } => {
            let mut rng = Rng::stream(seed, *stream);
            for k in 0..*n {
                let p = random_placement(&mut rng);
                c06_placement(&p, acc, k == 0 && *stream == 300_000);
            }
            acc.count("c06_random_placements", *n as u64);
        }
        Job::C05Transpositions { n, stream } => {
            let mut rng = Rng::stream(seed, *stream);
            for _ in 0..*n {
                c05_transposition(&starts[rng.below(starts.len() as u64) as usize], h, &mut rng, acc);
            }
        }
        Job::C05Flips { n, stream } => {
            let mut rng = Rng::stream(seed, *stream);
            for _ in 0..*n {
                let p = if rng.chance(1, 2) { workload::synth_position(&mut rng) } else { starts[rng.below(starts.len() as u64) as usize].clone() };
                c05_flips(&p, h, &mut rng, acc);
            }
        }
        Job::C05Constants => c05_constants(h, acc),
        Job::C04Families => c04_families(h, acc),
        Job::C02PromoThenSpecial => promo_then_special(prop, h, acc),
        Job::ThreePiece { wk, stride } => {
            let mut rng = Rng::stream(seed, 0x3333 + *wk as u64);
            let mut n = 0usize;
            let offset = (seed as usize) % *stride;
            for bk in 0..64u8 {
                if bk == *wk {
                    continue;
                }
                for x in 0..64u8 {
                    if x == *wk || x == bk {
                        continue;
                    }
                    for (ci, c) in [Color::White, Color::Black].iter().enumerate() {
                        for (ki, k) in [Kind::Pawn, Kind::Knight, Kind::Bishop, Kind::Rook, Kind::Queen].iter().enumerate() {
                            for stm in [Color::White, Color::Black] {
                                n += 1;
                                if n % *stride != offset {
                                    continue;
                                }
                                let mut p = Pos::empty();
                                p.sq[*wk as usize] = Some((Color::White, Kind::King));
                                p.sq[bk as usize] = Some((Color::Black, Kind::King));
                                p.sq[x as usize] = Some((*c, *k));
                                p.stm = stm;
                                let _ = (ci, ki);
                                // with the castling right whenever king and rook stand at home
                                if *k == Kind::Rook {
                                    if *c == Color::White && *wk == 4 {
                                        p.castle[WK] = x == 7;
                                        p.castle[WQ] = x == 0;
                                    }
                                    if *c == Color::Black && bk == 60 {
                                        p.castle[BK] = x == 63;
                                        p.castle[BQ] = x == 56;
                                    }
                                }
                                if !is_legal_position(&p) {
                                    continue;
                                }
                                acc.count("three_piece_positions", 1);
                                if prop == Prop::C06 {
                                    c06_placement(&p, acc, false);
                                } else {
                                    position_check_pub(&p, h, prop, &mut rng, acc);
                                }
                            }
                        }
                    }
                }
            }
        }
        Job::Tree { start, synth_stream } => {
            let p = match synth_stream {
                Some(st) => {
                    let mut rng = Rng::stream(seed, *st);
                    workload::synth_position(&mut rng)
                }
                None => starts[*start].clone(),
            };
            let pieces = p.sq.iter().filter(|x| x.is_some()).count();
            let depth = if pieces <= 5 { 4 } else if pieces <= 10 { 3 } else { 2 };
            if let Ok(Ok(eb)) = par::catch(|| engine_from_pos(&p)) {
                let o = Origin { start_fen: p.to_fen(), moves: vec![], carrier: "fen", cap_moves: vec![] };
                tree_check(&p, &eb, depth, h, prop, &o, acc);
                acc.count("tree_roots", 1);
            }
        }
    }
}

pub fn position_check_pub(p: &Pos, h: &ZobristHasher, prop: Prop, rng: &mut Rng, acc: &mut Acc) {
    super::rules::position_check_entry(p, h, prop, rng, acc)
}

// ---------------------------------------------------------------------------------------------
// C06 families
// ---------------------------------------------------------------------------------------------

const ATT_KINDS: [Kind; 5] = [Kind::Pawn, Kind::Knight, Kind::Bishop, Kind::Rook, Kind::Queen];
const BLOCKERS: [(bool, Kind); 4] = [(true, Kind::Pawn), (false, Kind::Pawn), (true, Kind::Knight), (false, Kind::Rook)];
// per (colour, king sq, attacker kind, attacker sq): 1 unblocked + up to 6 between-squares x 4 blockers + 3 off-ray x 1
const C06_VARIANTS: usize = 1 + 6 * 4 + 3;

pub fn c06_family_size() -> usize {
    2 * 64 * 5 * 64 * C06_VARIANTS
}

/// Placement: target king of colour `c` on K, enemy attacker on A, the other king parked on the
/// farthest corner, optionally one blocker.
pub fn c06_family(idx: usize) -> Option<Pos> {
    let variant = idx % C06_VARIANTS;
    let rest = idx / C06_VARIANTS;
    let asq = (rest % 64) as u8;
    let rest = rest / 64;
    let akind = ATT_KINDS[rest % 5];
    let rest = rest / 5;
    let ksq = (rest % 64) as u8;
    let c = if rest / 64 == 0 { Color::White } else { Color::Black };
    if asq == ksq {
        return None;
    }
    let mut p = Pos::empty();
    p.sq[ksq as usize] = Some((c, Kind::King));
    p.sq[asq as usize] = Some((c.other(), akind));
    // park the other king on the corner farthest from the target king, avoiding the attacker
    let mut corners = [0u8, 7, 56, 63];
    corners.sort_by_key(|&s| -((file_of(s) - file_of(ksq)).abs().max((rank_of(s) - rank_of(ksq)).abs())));
    let other = corners.iter().copied().find(|&s| s != asq && s != ksq)?;
    p.sq[other as usize] = Some((c.other(), Kind::King));
    if variant > 0 {
        let v = variant - 1;
        let df = file_of(ksq) - file_of(asq);
        let dr = rank_of(ksq) - rank_of(asq);
        let aligned = df == 0 || dr == 0 || df.abs() == dr.abs();
        if v < 24 {
            // blocker on the (v/4)-th square strictly between attacker and king
            if !aligned {
                return None;
            }
            let step = (v / 4) as i32 + 1;
            let dist = df.abs().max(dr.abs());
            if step >= dist {
                return None;
            }
            let s = sq_at(file_of(asq) + df.signum() * step, rank_of(asq) + dr.signum() * step)?;
            let (own, kind) = BLOCKERS[v % 4];
            if p.sq[s as usize].is_some() {
                return None;
            }
            p.sq[s as usize] = Some((if own { c } else { c.other() }, kind));
        } else {
            // a piece next to the king that is not on the attack ray
            let k = v - 24;
            let (ddf, ddr) = [(1, 0), (0, 1), (-1, -1)][k];
            let s = sq_at(file_of(ksq) + ddf, rank_of(ksq) + ddr)?;
            if p.sq[s as usize].is_some() {
                return None;
            }
            p.sq[s as usize] = Some((c, Kind::Bishop));
        }
    }
    Some(p)
}

pub fn random_placement(rng: &mut Rng) -> Pos {
    let mut p = Pos::empty();
    let wk = rng.below(64) as u8;
    let mut bk = rng.below(64) as u8;
    while bk == wk {
        bk = rng.below(64) as u8;
    }
    p.sq[wk as usize] = Some((Color::White, Kind::King));
    p.sq[bk as usize] = Some((Color::Black, Kind::King));
    let n = rng.range(0, 24);
    for _ in 0..n {
        let s = rng.below(64) as u8;
        if p.sq[s as usize].is_none() {
            let c = if rng.chance(1, 2) { Color::White } else { Color::Black };
            let k = *rng.pick(&[Kind::Pawn, Kind::Pawn, Kind::Knight, Kind::Bishop, Kind::Rook, Kind::Queen]);
            // pawns on the back ranks are allowed here: C06 quantifies over placements
            p.sq[s as usize] = Some((c, k));
        }
    }
    p.stm = if rng.chance(1, 2) { Color::White } else { Color::Black };
    p
}

pub fn c06_placement(p: &Pos, acc: &mut Acc, sample: bool) {
    let o = Origin { start_fen: p.to_fen(), moves: vec![], carrier: "fen", cap_moves: vec![] };
    let eb = match par::catch(|| load_fen(&p.to_fen6(0, 1))) {
        Ok(Ok(b)) => b,
        _ => {
            acc.inconclusive.push(format!("from_fen rejected placement {}", p.to_fen()));
            return;
        }
    };
    let wc = in_check(p, Color::White);
    let bc = in_check(p, Color::Black);
    if wc || bc {
        if acc.distinct.insert(hash64(&p.placement_fen())) {
            acc.feature(if wc && bc { "both_attacked" } else { "one_side_attacked" });
            for c in [Color::White, Color::Black] {
                if let Some(k) = p.king_sq(c) {
                    if in_check(p, c) && (file_of(k) == 0 || file_of(k) == 7 || rank_of(k) == 0 || rank_of(k) == 7) {
                        acc.feature("attacked_king_on_rim");
                    }
                }
            }
        }
    }
    if sample {
        acc.sample(json!({"placement": p.placement_fen(), "white_attacked": wc, "black_attacked": bc}));
    }
    check_is_check(p, &eb, "FEN loader", &o, acc);
}

// ---------------------------------------------------------------------------------------------
// C05 extras
// ---------------------------------------------------------------------------------------------

/// Two move orders reaching the identical position must give identical keys on every carrier.
pub fn c05_transposition(start: &Pos, h: &ZobristHasher, rng: &mut Rng, acc: &mut Acc) {
    // walk a few random plies first
    let mut p = start.clone();
    let mut prefix: Vec<Mv> = Vec::new();
    for _ in 0..rng.below(12) {
        let ms = legal_moves(&p);
        if ms.is_empty() {
            break;
        }
        let m = workload::choose_move(rng, &p, &ms, Policy::Mixed);
        prefix.push(m);
        p = apply(&p, m);
    }
    // find a1, b1, a2, b2 with a1 b1 a2 b2 and a2 b1 a1 b2 (white moves swapped) both legal, same result
    let la = legal_moves(&p);
    if la.len() < 2 {
        return;
    }
    for _ in 0..20 {
        let a1 = *rng.pick(&la);
        let a2 = *rng.pick(&la);
        if a1 == a2 || a1.from == a2.from {
            continue;
        }
        let p1 = apply(&p, a1);
        let lb = legal_moves(&p1);
        if lb.is_empty() {
            continue;
        }
        let b1 = *rng.pick(&lb);
        let p2 = apply(&p1, b1);
        if !legal_moves(&p2).contains(&a2) {
            continue;
        }
        let p3 = apply(&p2, a2);
        // other order
        let q1 = apply(&p, a2);
        if !legal_moves(&q1).contains(&b1) {
            continue;
        }
        let q2 = apply(&q1, b1);
        if !legal_moves(&q2).contains(&a1) {
            continue;
        }
        let q3 = apply(&q2, a1);
        if p3 != q3 {
            continue;
        }
        let seq1: Vec<Mv> = prefix.iter().copied().chain([a1, b1, a2]).collect();
        let seq2: Vec<Mv> = prefix.iter().copied().chain([a2, b1, a1]).collect();
        let k1 = keys_along(start, &seq1, h);
        let k2 = keys_along(start, &seq2, h);
        let fresh = par::catch(|| engine_from_pos(&p3)).ok().and_then(|r| r.ok()).map(|b| b.zobrist_key);
        acc.evaluations += 1;
        if acc.distinct.insert(hash64(&format!("T{}|{}", start.to_fen(), seq1.iter().map(|m| m.to_string()).collect::<Vec<_>>().join(" ")))) {
            acc.feature("transposition_pair");
        }
        let all: Vec<Option<u64>> = vec![k1.0, k1.1, k2.0, k2.1, fresh];
        let first = all[0];
        if all.iter().any(|k| k.is_none() || *k != first) {
            acc.violation(
                format!("C05|transposition|{}|{}", start.to_fen(), seq1.iter().map(|m| m.to_string()).collect::<Vec<_>>().join(" ")),
                format!("same position {} reached from {} by [{}] and [{}]: keys gen/text {:?}/{:?} vs {:?}/{:?}, fresh FEN load {:?}", p3.to_fen(), start.to_fen(),
                    seq1.iter().map(|m| m.to_string()).collect::<Vec<_>>().join(" "), seq2.iter().map(|m| m.to_string()).collect::<Vec<_>>().join(" "), k1.0, k1.1, k2.0, k2.1, fresh),
                json!({"kind": "transposition", "property": "C05", "start_fen": start.to_fen(),
                       "seq1": seq1.iter().map(|m| m.to_string()).collect::<Vec<_>>(), "seq2": seq2.iter().map(|m| m.to_string()).collect::<Vec<_>>()}),
            );
        }
        return;
    }
}

/// (key via generator chain, key via text applier) after playing `seq` from `start`.
pub fn keys_along(start: &Pos, seq: &[Mv], h: &ZobristHasher) -> (Option<u64>, Option<u64>) {
    let r = par::catch(|| {
        let e0 = engine_from_pos(start).ok()?;
        let mut g = e0.clone();
        let mut t = e0;
        let mut gen_ok = true;
        for m in seq {
            if gen_ok {
                let succ = generate_moves(&g, MoveGenerationMode::AllMoves, h);
                match succ.into_iter().find(|s| mv_of(s).ok() == Some(*m)) {
                    Some(s) => g = s,
                    None => gen_ok = false,
                }
            }
            crate::uci::verif_make_move(&mut t, &m.to_string(), h);
        }
        Some((if gen_ok { Some(g.zobrist_key) } else { None }, Some(t.zobrist_key)))
    });
    match r {
        Ok(Some(x)) => x,
        _ => (None, None),
    }
}

/// Changing any single component of a position must change the key (observed through from_fen).
pub fn c05_flips(p: &Pos, h: &ZobristHasher, rng: &mut Rng, acc: &mut Acc) {
    let base = match par::catch(|| engine_from_pos(p)) {
        Ok(Ok(b)) => b.zobrist_key,
        _ => return,
    };
    let mut variants: Vec<(String, Pos)> = Vec::new();
    let mut q = p.clone();
    q.stm = p.stm.other();
    variants.push(("side to move".into(), q));
    for i in 0..4 {
        let mut q = p.clone();
        q.castle[i] = !q.castle[i];
        variants.push((format!("right {}", ["K", "Q", "k", "q"][i]), q));
    }
    for f in 0..8 {
        let mut q = p.clone();
        let t = sq_at(f, if p.stm == Color::White { 5 } else { 2 }).unwrap();
        if p.ep == Some(t) {
            q.ep = None;
        } else {
            q.ep = Some(t);
        }
        variants.push((format!("ep file {}", (b'a' + f as u8) as char), q));
    }
    for _ in 0..6 {
        let s = rng.below(64) as usize;
        let mut q = p.clone();
        match p.sq[s] {
            Some((c, k)) if k != Kind::King => {
                q.sq[s] = if rng.chance(1, 2) { None } else { Some((c.other(), k)) };
                variants.push((format!("piece on {} changed", sq_name(s as u8)), q));
            }
            None => {
                q.sq[s] = Some((if rng.chance(1, 2) { Color::White } else { Color::Black }, *rng.pick(&[Kind::Pawn, Kind::Knight, Kind::Bishop, Kind::Rook, Kind::Queen])));
                variants.push((format!("piece added on {}", sq_name(s as u8)), q));
            }
            _ => {}
        }
    }
    for (what, q) in variants {
        if q == *p {
            continue;
        }
        acc.evaluations += 1;
        // flips are observed through the FEN loader (legality of q is irrelevant for a key)
        let k = match par::catch(|| load_fen(&q.to_fen6(0, 1))) {
            Ok(Ok(b)) => b,
            _ => continue,
        };
        if acc.distinct.insert(hash64(&format!("F{}|{}", p.to_fen(), what))) {
            acc.feature("single_component_flip");
        }
        // the loader must have taken the component over, otherwise the flip did not happen
        if fields_of(&k).to_pos() != q {
            continue;
        }
        if k.zobrist_key == base {
            acc.violation(
                format!("C05|flip|{}|{}", p.to_fen(), what),
                format!("{} and {} differ in one component ({}) but have the same key {:016x}", p.to_fen(), q.to_fen(), what, base),
                json!({"kind": "flip", "property": "C05", "fen_a": p.to_fen(), "fen_b": q.to_fen()}),
            );
        }
    }
}

/// All hasher constants addressable by a legal position: pairwise distinct and non-zero.
pub fn c05_constants(h: &ZobristHasher, acc: &mut Acc) {
    use crate::board::{Piece, PieceColor, PieceKind};
    use crate::move_generation::CastlingType;
    let mut vals: Vec<(String, u64)> = Vec::new();
    for c in [Color::White, Color::Black] {
        for k in [Kind::Pawn, Kind::Knight, Kind::Bishop, Kind::Rook, Kind::Queen, Kind::King] {
            for s in 0..64u8 {
                vals.push((format!("{}{}", piece_letter(c, k), sq_name(s)), h.get_val_for_piece(Piece { color: engine_color(c), kind: engine_kind(k) }, pt(s))));
            }
        }
    }
    vals.push(("black-to-move".into(), h.get_black_to_move_val()));
    vals.push(("K".into(), h.get_val_for_castling(CastlingType::WhiteKingSide)));
    vals.push(("Q".into(), h.get_val_for_castling(CastlingType::WhiteQueenSide)));
    vals.push(("k".into(), h.get_val_for_castling(CastlingType::BlackKingSide)));
    vals.push(("q".into(), h.get_val_for_castling(CastlingType::BlackQueenSide)));
    for f in 0..8u8 {
        vals.push((format!("ep-{}", (b'a' + f) as char), h.get_val_for_en_passant(2 + f as usize)));
    }
    acc.count("hasher_constants", vals.len() as u64);
    let mut sorted = vals.clone();
    sorted.sort_by_key(|x| x.1);
    for i in 0..sorted.len() {
        acc.evaluations += 1;
        if sorted[i].1 == 0 {
            acc.violation(format!("C05|const-zero|{}", sorted[i].0), format!("hasher constant {} is zero", sorted[i].0), json!({"kind": "constants"}));
        }
        if i > 0 && sorted[i].1 == sorted[i - 1].1 {
            acc.violation(format!("C05|const-dup|{}|{}", sorted[i - 1].0, sorted[i].0), format!("hasher constants {} and {} are equal", sorted[i - 1].0, sorted[i].0), json!({"kind": "constants"}));
        }
    }
}

// ---------------------------------------------------------------------------------------------
// C04 extras
// ---------------------------------------------------------------------------------------------

/// `position ... moves ...` as one command line through the real handler function, both forms.
pub fn whole_line_check(start: &Pos, moves: &[Mv], h: &ZobristHasher, acc: &mut Acc) {
    let mut want = start.clone();
    for m in moves {
        want = apply(&want, *m);
    }
    let mut line = if start.to_fen() == START_FEN && moves.len() % 2 == 0 {
        "position startpos".to_string()
    } else {
        format!("position fen {}", start.to_fen6(0, 1))
    };
    if !moves.is_empty() {
        line.push_str(" moves");
        for m in moves {
            line.push(' ');
            line.push_str(&m.to_string());
        }
    }
    acc.evaluations += 1;
    let toks: Vec<&str> = line.split(' ').collect();
    let r = par::catch(|| {
        let mut dt = DrawTable::new();
        let b = crate::uci::verif_play_out_position(&toks, h, &mut dt);
        (b, dt)
    });
    let case = json!({"kind": "position_line", "property": "C04", "line": line});
    match r {
        Ok((b, _dt)) => {
            let got = fields_of(&b);
            let wf = fields_of_pos(&want);
            let wk = zobrist_from_scratch(&wf, h);
            if got != wf || b.zobrist_key != wk {
                acc.violation(
                    format!("C04|line|{}", hash64(&line)),
                    format!("'{}' leaves the engine with {}{} instead of {}", truncate(&line, 300), got.diff(&wf), if b.zobrist_key != wk { "; wrong hash" } else { "" }, want.to_fen()),
                    case,
                );
            }
        }
        Err(e) => acc.violation(format!("C04|line-panic|{}", hash64(&line)), format!("'{}' panicked: {}", truncate(&line, 300), e), case),
    }
}

pub fn truncate(s: &str, n: usize) -> String {
    if s.len() <= n {
        s.to_string()
    } else {
        // cut on a character boundary (the text may be arbitrary Unicode)
        let mut k = n;
        while !s.is_char_boundary(k) {
            k -= 1;
        }
        format!("{}...[{} bytes]", &s[..k], s.len())
    }
}

/// Explicit families named in C04's quantifier. Each is a (start FEN, move list) replayed through
/// the walker with a fixed chooser, so every per-ply C04 comparison applies.
pub fn c04_families(h: &ZobristHasher, acc: &mut Acc) {
    let mut cases: Vec<(String, Vec<&str>)> = Vec::new();
    let both = "r3k2r/pppppppp/8/8/8/8/PPPPPPPP/R3K2R w KQkq -";
    for (w, b) in [("e1g1", "e8g8"), ("e1c1", "e8c8"), ("e1g1", "e8c8"), ("e1c1", "e8g8")] {
        cases.push((both.to_string(), vec![w, b, "a2a3", "a7a6"]));
    }
    // rook moves / captures on every corner, king capturing on a corner
    let shielded = "rn2k1nr/1pppppp1/8/8/8/8/1PPPPPP1/RN2K1NR w KQkq -";
    cases.push((shielded.to_string(), vec!["a1a8", "h8h1", "a8a1", "h1h8"]));
    cases.push((shielded.to_string(), vec!["h1h8", "a8a1", "h8h1", "a1a8"]));
    let open = "r3k2r/1pppppp1/8/8/8/8/1PPPPPP1/R3K2R w KQkq -";
    for line in [
        vec!["a1a2", "a8a7", "a2a1", "a7a8", "e1d1", "e8d8"],
        vec!["h1h2", "h8h7", "h2h1", "h7h8", "e1f1", "e8f8"],
        vec!["a1b1", "h8g8", "b1a1", "g8h8", "e1g1", "e8c8"],
        vec!["h1g1", "a8b8", "g1h1", "b8a8", "e1c1", "e8g8"],
    ] {
        cases.push((open.to_string(), line));
    }
    cases.push(("6k1/8/8/8/8/8/1r6/R3K3 b Q -".to_string(), vec!["b2b1", "a1b1"]));
    cases.push(("r3k3/8/8/8/8/8/8/1K5R w q -".to_string(), vec!["h1h8", "e8d7", "h8a8"]));
    cases.push(("rk6/8/8/8/8/8/8/R3K2R w KQ -".to_string(), vec!["a1a8", "b8a8"]));
    cases.push(("4k2r/8/8/8/8/8/8/1K5R b k -".to_string(), vec!["h8h1", "b1b2", "h1a1", "b2a1"]));
    cases.push(("1k5r/8/8/8/8/8/8/4K2R w K -".to_string(), vec!["h1h8", "b8b7", "h8a8", "b7a8"]));
    cases.push(("r3k2r/8/8/8/8/8/8/6KR w kq -".to_string(), vec!["h1h8", "e8e7", "h8a8"]));
    // en passant on every file, both colours, both directions
    for f in 0..8 {
        for df in [-1i32, 1] {
            let cf = f as i32 + df;
            if !(0..8).contains(&cf) {
                continue;
            }
            let file = |x: i32| (b'a' + x as u8) as char;
            // white captures: white pawn on rank 5 file cf, black pawn double-steps on file f
            let mut p = Pos::empty();
            p.sq[4] = Some((Color::White, Kind::King));
            p.sq[60] = Some((Color::Black, Kind::King));
            p.sq[sq_at(cf, 4).unwrap() as usize] = Some((Color::White, Kind::Pawn));
            p.sq[sq_at(f as i32, 6).unwrap() as usize] = Some((Color::Black, Kind::Pawn));
            p.stm = Color::Black;
            let m1 = format!("{}7{}5", file(f as i32), file(f as i32));
            let m2 = format!("{}5{}6", file(cf), file(f as i32));
            cases.push((p.to_fen(), vec![leak(m1), leak(m2), "e8f8"]));
            let q = mirror(&p);
            let m1 = format!("{}2{}4", file(f as i32), file(f as i32));
            let m2 = format!("{}4{}3", file(cf), file(f as i32));
            cases.push((q.to_fen(), vec![leak(m1), leak(m2), "e1f1"]));
        }
    }
    // promotions: each piece, with and without capture, every file, both colours
    for f in 0..8i32 {
        for promo in ["q", "r", "b", "n"] {
            for cap in [0i32, -1, 1] {
                let tf = f + cap;
                if !(0..8).contains(&tf) {
                    continue;
                }
                let file = |x: i32| (b'a' + x as u8) as char;
                let mut p = Pos::empty();
                p.sq[sq_at(if f < 4 { 7 } else { 0 }, 0).unwrap() as usize] = Some((Color::White, Kind::King));
                p.sq[sq_at(if f < 4 { 7 } else { 0 }, 5).unwrap() as usize] = Some((Color::Black, Kind::King));
                p.sq[sq_at(f, 6).unwrap() as usize] = Some((Color::White, Kind::Pawn));
                if cap != 0 {
                    p.sq[sq_at(tf, 7).unwrap() as usize] = Some((Color::Black, Kind::Rook));
                }
                p.stm = Color::White;
                if !is_legal_position(&p) {
                    continue;
                }
                let m = format!("{}7{}8{}", file(f), file(tf), promo);
                cases.push((p.to_fen(), vec![leak(m.clone())]));
                let q = mirror(&p);
                let m = format!("{}2{}1{}", file(f), file(tf), promo);
                cases.push((q.to_fen(), vec![leak(m)]));
            }
        }
    }
    let mut rng = Rng::new(7);
    let mut n_ok = 0;
    for (fen, line) in cases {
        let start = match Pos::parse_fen(&fen) {
            Ok(p) if is_legal_position(&p) => p,
            _ => {
                acc.inconclusive.push(format!("C04 family start not legal: {}", fen));
                continue;
            }
        };
        let mvs: Vec<Mv> = line.iter().filter_map(|t| parse_mv(t)).collect();
        // legality of the scripted line is checked by the oracle; illegal scripts are harness bugs
        let mut p = start.clone();
        let mut ok = true;
        for m in &mvs {
            if !legal_moves(&p).contains(m) {
                acc.inconclusive.push(format!("C04 family script illegal: {} [{}] at {}", fen, line.join(" "), m));
                ok = false;
                break;
            }
            p = apply(&p, *m);
        }
        if !ok {
            continue;
        }
        n_ok += 1;
        let mut i = 0;
        let mut choose = |_p: &Pos, _l: &[Mv], _ply: usize| -> Option<Mv> {
            let r = mvs.get(i).copied();
            i += 1;
            r
        };
        walk(&start, mvs.len() + 1, &mut choose, h, Prop::C04, &mut rng, acc);
        whole_line_check(&start, &mvs, h, acc);
        acc.feature("explicit_family_script");
        acc.distinct.insert(hash64(&format!("S{}|{}", fen, line.join(" "))));
    }
    acc.count("c04_family_scripts", n_ok);
}

pub fn leak(s: String) -> &'static str {
    Box::leak(s.into_boxed_str())
}

/// Targeted family: promotion at ply n, castling / ep / quiet move at ply n+1 (inherited fields).
pub fn promo_then_special(prop: Prop, h: &ZobristHasher, acc: &mut Acc) {
    let mut rng = Rng::new(11);
    let mut scripts: Vec<(&str, Vec<String>)> = Vec::new();
    for promo in ["q", "r", "b", "n"] {
        // the promoted piece is screened from the king and the castling path by a black piece
        scripts.push(("r1n1k2r/1P6/8/8/8/8/8/4K3 w kq -", vec![format!("b7b8{}", promo), "e8g8".to_string()]));
        scripts.push(("r3kb1r/6P1/8/8/8/8/8/4K3 w kq -", vec![format!("g7g8{}", promo), "e8c8".to_string()]));
        scripts.push(("4k3/8/8/8/8/8/1p6/R1N1K2R b KQ -", vec![format!("b2b1{}", promo), "e1g1".to_string()]));
        scripts.push(("4k3/8/8/8/8/8/6p1/R3KB1R b KQ -", vec![format!("g2g1{}", promo), "e1c1".to_string()]));
        // promotion followed by an en-passant capture by the other side is impossible (needs a double
        // step in between); promotion, double step, ep:
        scripts.push(("4k3/1P6/8/8/3p4/8/4P3/4K3 w - -", vec![format!("b7b8{}", promo), "e8e7".into(), "e2e4".into(), "d4e3".into()]));
        scripts.push(("4k3/4p3/8/3P4/8/8/1p6/4K3 b - -", vec![format!("b2b1{}", promo), "e1e2".into(), "e7e5".into(), "d5e6".into()]));
        scripts.push(("4k3/1P6/8/8/8/8/8/4K3 w - -", vec![format!("b7b8{}", promo), "e8e7".into(), "e1e2".into()]));
    }
    for (fen, line) in scripts {
        let start = Pos::parse_fen(fen).unwrap();
        let mvs: Vec<Mv> = line.iter().filter_map(|t| parse_mv(t)).collect();
        let mut p = start.clone();
        let mut ok = is_legal_position(&start);
        for m in &mvs {
            if !ok || !legal_moves(&p).contains(m) {
                ok = false;
                break;
            }
            p = apply(&p, *m);
        }
        if !ok {
            acc.inconclusive.push(format!("promo-then-special script illegal: {} [{}]", fen, line.join(" ")));
            continue;
        }
        let mut i = 0;
        let mut choose = |_p: &Pos, _l: &[Mv], _ply: usize| -> Option<Mv> {
            let r = mvs.get(i).copied();
            i += 1;
            r
        };
        walk(&start, mvs.len() + 1, &mut choose, h, prop, &mut rng, acc);
        acc.feature("promotion_then_special_script");
        acc.distinct.insert(hash64(&format!("P{}|{}", fen, line.join(" "))));
    }
}
