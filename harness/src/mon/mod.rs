//! One monitor per property; dispatch by property id.
pub mod c03;
pub mod c08;
pub mod c09;
pub mod c10;
pub mod c11;
pub mod c14;
pub mod c15;
pub mod c16;
pub mod c17;
pub mod pipe;
pub mod replay;
pub mod rules;
pub mod sanit;
pub mod rules_driver;
pub mod search;
pub mod searchlib;
pub mod timed;

use crate::ev::Tier;

pub fn run_check(prop: &str, tier: Tier, seed: u64) -> i32 {
    if let Some(p) = rules::Prop::parse(prop) {
        return rules_driver::run(p, tier, seed);
    }
    match prop {
        "C03" => c03::run(tier, seed),
        "C07" => search::run_c07(tier, seed),
        "C08" => c08::run(tier, seed),
        "C09" => c09::run(tier, seed),
        "C10" => c10::run(tier, seed),
        "C11" => c11::run(tier, seed),
        "C12" => search::run_c12(tier, seed),
        "C14" => c14::run(tier, seed),
        "C15" => c15::run(tier, seed),
        "C16" => c16::run(tier, seed),
        "C17" => c17::run(tier, seed),
        "C18" => search::run_c18(tier, seed),
        _ => {
            println!("INCONCLUSIVE unknown property {}", prop);
            2
        }
    }
}

pub fn run_replay(prop: &str, path: &str) -> i32 {
    replay::run(prop, path)
}
