//! One monitor per property; dispatch by property id.
pub mod rules;
pub mod rules_driver;

use crate::ev::Tier;

pub fn run_check(prop: &str, tier: Tier, seed: u64) -> i32 {
    if let Some(p) = rules::Prop::parse(prop) {
        return rules_driver::run(p, tier, seed);
    }
    println!("INCONCLUSIVE unknown property {}", prop);
    2
}

pub fn run_replay(prop: &str, path: &str) -> i32 {
    println!("INCONCLUSIVE replay not implemented for {} ({})", prop, path);
    2
}
