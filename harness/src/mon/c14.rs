//! C14: static evaluation is colour-symmetric, side-relative, a function of placement and side
//! to move only, and bounded far below the mate range. Metamorphic monitor over the real
//! `get_evaluation`.

use crate::board::{BoardState, Piece, Point};
use crate::ev::{Acc, Run, Tier};
use crate::evaluation::get_evaluation;
use crate::glue::*;
use crate::oracle::*;
use crate::par;
use crate::rng::{hash64, Rng};
use serde_json::json;

const BOUND: i32 = 50_000;

thread_local! {
    static RECENT_KEYS: std::cell::RefCell<Vec<u64>> = const { std::cell::RefCell::new(Vec::new()) };
}

pub fn eval_of(p: &Pos) -> Result<(i32, BoardState), String> {
    let fen = p.to_fen6(0, 1);
    par::catch(|| {
        let b = load_fen(&fen)?;
        let e = get_evaluation(&b);
        Ok::<_, String>((e, b))
    })
    .and_then(|r| r)
}

pub fn check_placement(p: &Pos, acc: &mut Acc, rng: &mut Rng, sample: bool) {
    acc.evaluations += 1;
    let case = json!({"kind": "placement", "property": "C14", "fen": p.to_fen()});
    let (e, b) = match eval_of(p) {
        Ok(x) => x,
        Err(msg) => {
            acc.violation(format!("C14|panic|{}", p.placement_fen()), format!("evaluating {} failed: {}", p.to_fen(), msg), case);
            return;
        }
    };
    let n_pieces = p.sq.iter().filter(|x| x.is_some()).count();
    if n_pieces > 0 && e != 0 {
        if acc.distinct.insert(hash64(&p.to_fen())) {
            acc.feature(if n_pieces == 1 { "single_piece" } else { "multi_piece" });
        }
    }
    if sample {
        acc.sample(json!({"fen": p.to_fen(), "eval": e}));
    }
    acc.max("max_abs_eval", e.unsigned_abs() as u64);
    if e.abs() > BOUND {
        acc.violation(format!("C14|bound|{}", p.to_fen()), format!("|eval({})| = {} exceeds {} (mate scores start at 99 985)", p.to_fen(), e, BOUND), case.clone());
    }
    // colour mirror
    let m = mirror(p);
    match eval_of(&m) {
        Ok((em, _)) => {
            if em != e {
                acc.violation(format!("C14|mirror|{}", p.to_fen()), format!("eval({}) = {} but its colour-mirrored twin {} evaluates to {}", p.to_fen(), e, m.to_fen(), em), case.clone());
            }
        }
        Err(msg) => acc.violation(format!("C14|panic|{}", m.placement_fen()), format!("evaluating {} failed: {}", m.to_fen(), msg), case.clone()),
    }
    // other side to move
    let mut o = p.clone();
    o.stm = p.stm.other();
    o.ep = None;
    match eval_of(&o) {
        Ok((eo, _)) => {
            if eo != -e {
                acc.violation(format!("C14|negate|{}", p.to_fen()), format!("eval({}) = {} but with the other side to move it is {} (expected {})", p.to_fen(), e, eo, -e), case.clone());
            }
        }
        Err(msg) => acc.violation(format!("C14|panic|{}", o.placement_fen()), format!("evaluating {} failed: {}", o.to_fen(), msg), case.clone()),
    }
    // nothing but placement and side to move
    let mut v = b.clone();
    v.white_king_side_castle = !v.white_king_side_castle;
    v.white_queen_side_castle = !v.white_queen_side_castle;
    v.black_king_side_castle = !v.black_king_side_castle;
    v.black_queen_side_castle = !v.black_queen_side_castle;
    v.pawn_double_move = if v.pawn_double_move.is_some() { None } else { Some(Point(4 + rng.below(4) as usize, 2 + rng.below(8) as usize)) };
    v.last_move = Some((Point(2 + rng.below(8) as usize, 2 + rng.below(8) as usize), Point(2 + rng.below(8) as usize, 2 + rng.below(8) as usize)));
    v.pawn_promotion = Some(Piece::queen(b.to_move));
    v.order_heuristic = rng.next() as i32;
    // the key of a *different* position evaluated a moment ago on this thread when there is one
    // (a result remembered per key would then answer for the wrong placement), else random
    v.zobrist_key = RECENT_KEYS.with(|r| {
        let r = r.borrow();
        r.iter().rev().find(|k| **k != b.zobrist_key).copied()
    })
    .unwrap_or_else(|| rng.next());
    v.white_king_location = Point(2 + rng.below(8) as usize, 2 + rng.below(8) as usize);
    v.black_king_location = Point(2 + rng.below(8) as usize, 2 + rng.below(8) as usize);
    RECENT_KEYS.with(|r| {
        let mut r = r.borrow_mut();
        r.push(b.zobrist_key);
        if r.len() > 8 {
            r.remove(0);
        }
    });
    // the move handed over the way the search's null move does it: side to move flipped on a
    // clone, every other field (the key included) left as it was
    let mut nm = b.clone();
    nm.to_move = match b.to_move {
        crate::board::PieceColor::White => crate::board::PieceColor::Black,
        crate::board::PieceColor::Black => crate::board::PieceColor::White,
    };
    match par::catch(|| get_evaluation(&nm)) {
        Ok(en) => {
            if en != -e {
                acc.violation(format!("C14|handover|{}", p.to_fen()), format!("eval({}) = {} but the same board with only the side to move flipped (as the null move does, key unchanged) evaluates to {} (expected {})", p.to_fen(), e, en, -e), case.clone());
            }
        }
        Err(msg) => acc.violation(format!("C14|panic-handover|{}", p.placement_fen()), format!("evaluating {} with the move handed over panicked: {}", p.to_fen(), msg), case.clone()),
    }
    // and the original board again: the answer must not depend on what was evaluated in between
    match par::catch(|| get_evaluation(&b)) {
        Ok(e2) => {
            if e2 != e {
                acc.violation(format!("C14|history|{}", p.to_fen()), format!("eval({}) was {} and is {} after other boards were evaluated in between", p.to_fen(), e, e2), case.clone());
            }
        }
        Err(_) => {}
    }
    match par::catch(|| get_evaluation(&v)) {
        Ok(ev) => {
            if ev != e {
                acc.violation(format!("C14|extra-state|{}", p.to_fen()), format!("eval({}) changes from {} to {} when only rights / ep target / last move / promotion / ordering value / key / king caches change", p.to_fen(), e, ev), case);
            }
        }
        Err(msg) => acc.violation(format!("C14|panic-extra|{}", p.placement_fen()), format!("evaluating {} with altered non-placement fields panicked: {}", p.to_fen(), msg), case),
    }
}

/// Symmetric filler realising game phase `phase` (each pair = white piece + black piece on the
/// mirrored square, so the filler's own contribution cancels). Avoids `reserved`.
pub fn add_filler(p: &mut Pos, phase: i32, reserved: u8) {
    // phase values: N/B 1, R 2, Q 4 ; a mirrored pair adds twice that
    let mut left = phase;
    let mut squares: Vec<u8> = (8..32u8).filter(|&s| s != reserved && (7 - rank_of(s)) * 8 + file_of(s) != reserved as i32).collect();
    squares.reverse();
    while left >= 2 {
        let s = match squares.pop() {
            Some(s) => s,
            None => return,
        };
        let t = ((7 - rank_of(s)) * 8 + file_of(s)) as u8;
        let k = if left >= 8 {
            left -= 8;
            Kind::Queen
        } else if left >= 4 {
            left -= 4;
            Kind::Rook
        } else {
            left -= 2;
            Kind::Knight
        };
        p.sq[s as usize] = Some((Color::White, k));
        p.sq[t as usize] = Some((Color::Black, k));
    }
}

/// Legal position with extreme material for one side (5-9 queens + rooks/minors) against a nearly
/// bare king: the largest evaluations the engine can produce, with and without a mate available.
pub fn extreme_material_position(rng: &mut Rng) -> Option<Pos> {
    let mut p = Pos::empty();
    let heavy = if rng.chance(1, 2) { Color::White } else { Color::Black };
    let weak = heavy.other();
    let wk = rng.below(64) as u8;
    p.sq[wk as usize] = Some((weak, Kind::King));
    let mut place = |p: &mut Pos, pc: (Color, Kind), rng: &mut Rng| {
        for _ in 0..30 {
            let s = rng.below(64) as u8;
            if p.sq[s as usize].is_none() && !(pc.1 == Kind::Pawn && (rank_of(s) == 0 || rank_of(s) == 7)) {
                p.sq[s as usize] = Some(pc);
                return;
            }
        }
    };
    place(&mut p, (heavy, Kind::King), rng);
    for _ in 0..rng.range(5, 9) {
        place(&mut p, (heavy, Kind::Queen), rng);
    }
    for k in [Kind::Rook, Kind::Rook, Kind::Bishop, Kind::Bishop, Kind::Knight, Kind::Knight] {
        if rng.chance(2, 3) {
            place(&mut p, (heavy, k), rng);
        }
    }
    for _ in 0..rng.range(0, 3) {
        place(&mut p, (weak, Kind::Pawn), rng);
    }
    p.stm = if in_check(&p, weak) { weak } else if rng.chance(1, 2) { heavy } else { weak };
    if is_legal_position(&p) && has_legal_move(&p) {
        Some(p)
    } else {
        None
    }
}

/// "A material evaluation can never be mistaken for, or outrank, a forced mate": observed on the
/// real search at depths 1-2 against the exact reference value (mate scores on the documented
/// 100000 scale, material from the engine's own evaluation).
fn check_mate_range(p: &Pos, h: &crate::zobrist::ZobristHasher, acc: &mut Acc, sample: bool) {
    use crate::mon::search::make_root;
    use crate::mon::searchlib::*;
    let hist = History { start: p.clone(), moves: vec![], end: p.clone() };
    let root = match make_root(hist, h) {
        Ok(r) => r,
        Err(_) => return,
    };
    let r = run_search(&root.board, &root.table, None, 2);
    acc.evaluations += 1;
    let case = json!({"kind": "search", "property": "C14", "position_command": root.hist.command(), "root_fen": p.to_fen(), "depth_limit": 2});
    if r.panic.is_some() {
        return; // C07's business
    }
    let mut cur = 0u8;
    let mut last: std::collections::HashMap<u8, (Info, String, Option<Mv>)> = std::collections::HashMap::new();
    let mut last_send: Option<Mv> = None;
    for e in &r.report.events {
        match e {
            crate::verif::Ev::IterStart(d) => cur = *d,
            crate::verif::Ev::Send(b, _) => last_send = mv_of(b).ok(),
            crate::verif::Ev::Line(l) => {
                if let Ok(i) = parse_info(l, true) {
                    last.insert(cur, (i, l.clone(), last_send));
                }
            }
        }
    }
    for d in 1..=2u8 {
        let mut rs = RefSearch::new(h, 20_000_000);
        let (want, _) = match par::catch(|| rs.root(&root.board, d, &root.table)) {
            Ok(x) => x,
            Err(_) => continue,
        };
        if rs.over_budget {
            continue;
        }
        if let Some((info, line, mv)) = last.get(&d) {
            let is_mate_value = want.abs() >= MATE - 15;
            if acc.distinct.insert(hash64(&format!("mr|{}|{}", p.to_fen(), d))) {
                acc.feature(if is_mate_value { "extreme_material_with_forced_mate" } else { "extreme_material_no_mate" });
            }
            acc.max("max_abs_search_value_non_mate", if is_mate_value { 0 } else { want.unsigned_abs() as u64 });
            if sample && d == 2 {
                acc.sample(json!({"extreme_material_root": p.to_fen(), "depth": d, "reference_value": want, "reported": format!("{:?}", info.score)}));
            }
            match (&info.score, is_mate_value) {
                (Score::Mate(n), false) => acc.violation(
                    format!("C14|material-as-mate|{}|d{}", p.to_fen(), d),
                    format!("{}: depth {} reports 'mate {}' although the exact value is the material score {} (no forced mate): a material evaluation is mistaken for a mate: {:?}", p.to_fen(), d, n, want, line),
                    case.clone(),
                ),
                (Score::Cp(x), true) => acc.violation(
                    format!("C14|mate-outranked|{}|d{}", p.to_fen(), d),
                    format!("{}: depth {} ends on {:?} with 'cp {}' although a forced mate (value {}) exists: a material evaluation outranks the mate: {:?}", p.to_fen(), d, mv.map(|m| m.to_string()), x, want, line),
                    case.clone(),
                ),
                _ => {}
            }
        }
    }
}

/// "Depends on nothing but placement and side to move", for boards that were not built by the
/// FEN loader: along a game the same position is held by a board that came down the generator's
/// own successor chain, by a board the text applier has been playing on since the start, and by
/// a fresh load; all three must evaluate to the same number at every ply. Starts include surplus
/// material (second and third queens on a nearly full board, pawns about to promote), so that
/// anything the boards maintain incrementally is pushed beyond its ordinary range first.
fn carrier_walk(start: &Pos, plies: usize, h: &crate::zobrist::ZobristHasher, rng: &mut Rng, acc: &mut Acc) {
    use crate::move_generation::{generate_moves, MoveGenerationMode};
    let mut cur = start.clone();
    let (mut gen_b, mut txt_b) = match (engine_from_pos(start), engine_from_pos(start)) {
        (Ok(a), Ok(b)) => (a, b),
        _ => return,
    };
    let mut path: Vec<String> = Vec::new();
    for ply in 0..plies {
        let legal = legal_moves(&cur);
        if legal.is_empty() {
            break;
        }
        // captures and promotions are what changes material: prefer them
        let policy = if rng.chance(2, 3) { crate::workload::Policy::Tactical } else { crate::workload::Policy::Mixed };
        let m = crate::workload::choose_move(rng, &cur, &legal, policy);
        let next = apply(&cur, m);
        path.push(m.to_string());
        let case = json!({"kind": "walk", "property": "C14", "start_fen": start.to_fen(), "moves": path});
        // generator carrier
        let gb = gen_b.clone();
        let succ = match par::catch(|| generate_moves(&gb, MoveGenerationMode::AllMoves, h)) {
            Ok(s) => s,
            Err(e) => {
                acc.violation(format!("C14|carrier-panic|{}", cur.to_fen()), format!("generation panicked on {}: {}", cur.to_fen(), e), case);
                return;
            }
        };
        let pick = succ.into_iter().find(|b| mv_of(b).ok() == Some(m));
        let nb = match pick {
            Some(b) => b,
            None => return, // a generation fault: C01/C02 report it
        };
        // text carrier
        let mut tb = txt_b.clone();
        let text = m.to_string();
        if par::catch(|| crate::uci::verif_make_move(&mut tb, &text, h)).is_err() {
            return; // C04 reports it
        }
        if fields_of(&nb) != fields_of_pos(&next) || fields_of(&tb) != fields_of_pos(&next) {
            return; // not the same position: a matter for C02 / C04
        }
        let fresh = match eval_of(&next) {
            Ok((e, _)) => e,
            Err(_) => return,
        };
        acc.evaluations += 1;
        acc.count("carrier_plies", 1);
        let phase_like: i32 = next.sq.iter().map(|x| match x { Some((_, Kind::Queen)) => 4, Some((_, Kind::Rook)) => 2, Some((_, Kind::Bishop)) | Some((_, Kind::Knight)) => 1, _ => 0 }).sum();
        if phase_like > 24 {
            acc.feature("carrier_board_with_surplus_material");
        }
        if is_capture(&cur, m) {
            acc.feature("carrier_ply_is_a_capture");
        }
        if m.promo.is_some() {
            acc.feature("carrier_ply_is_a_promotion");
        }
        acc.distinct.insert(hash64(&format!("carrier|{}|{}", start.to_fen(), ply)));
        for (name, b) in [("generator's successor chain", &nb), ("text applier", &tb)] {
            match par::catch(|| get_evaluation(b)) {
                Ok(e) => {
                    if e != fresh {
                        acc.violation(
                            format!("C14|carrier|{}|{}", name, next.to_fen()),
                            format!("{} reached from {} by [{}]: the board carried by the {} evaluates to {}, the same placement and side to move loaded afresh to {}", next.to_fen(), start.to_fen(), path.join(" "), name, e, fresh),
                            case.clone(),
                        );
                        return;
                    }
                }
                Err(msg) => {
                    acc.violation(format!("C14|carrier-panic|{}", next.to_fen()), format!("evaluating the {} board of {} panicked: {}", name, next.to_fen(), msg), case.clone());
                    return;
                }
            }
        }
        gen_b = nb;
        txt_b = tb;
        cur = next;
    }
}

/// Nearly full boards with surplus queens / rooks and pawns one step from promotion.
fn surplus_start(rng: &mut Rng) -> Option<Pos> {
    let mut p = Pos::start();
    p.castle = [false; 4];
    // replace some pawns / minor pieces by queens and rooks, push some pawns to the seventh
    for _ in 0..(1 + rng.below(5)) {
        let c = if rng.chance(1, 2) { Color::White } else { Color::Black };
        let own: Vec<usize> = (0..64).filter(|s| matches!(p.sq[*s], Some((cc, k)) if cc == c && k != Kind::King)).collect();
        if own.is_empty() {
            continue;
        }
        let s = own[rng.below(own.len() as u64) as usize];
        p.sq[s] = Some((c, *rng.pick(&[Kind::Queen, Kind::Queen, Kind::Rook])));
    }
    for _ in 0..rng.below(3) {
        let c = if rng.chance(1, 2) { Color::White } else { Color::Black };
        let f = rng.below(8) as usize;
        let (from_rank, to_rank, back) = if c == Color::White { (1usize, 6usize, 7usize) } else { (6, 1, 0) };
        if matches!(p.sq[from_rank * 8 + f], Some((cc, Kind::Pawn)) if cc == c) {
            p.sq[from_rank * 8 + f] = None;
            p.sq[to_rank * 8 + f] = Some((c, Kind::Pawn));
            // make room on the promotion square or next to it now and then
            if rng.chance(1, 2) && !matches!(p.sq[back * 8 + f], Some((_, Kind::King))) {
                p.sq[back * 8 + f] = None;
            }
        }
    }
    p.stm = if rng.chance(1, 2) { Color::White } else { Color::Black };
    if is_legal_position(&p) && !legal_moves(&p).is_empty() {
        Some(p)
    } else {
        None
    }
}

pub fn run(tier: Tier, seed: u64) -> i32 {
    let mut run = Run::new("C14", tier, seed, "exploration");
    run.rule = "evaluation = one placement for which eval is compared with (a) the eval of its colour-mirrored twin, (b) the negated eval with the other side to move, (c) the eval after scrambling every non-placement field (the key is set to that of a different, just evaluated position) and after handing the move over on a clone the way the null move does (key unchanged), and the eval of the original board again afterwards, (d) the bound 50 000; (f) along game walks (library starts and nearly full boards with surplus queens and pawns about to promote, captures and promotions preferred) the board that came down the generator's own successor chain and the board the text applier has been playing on must evaluate like a fresh load of the same position at every ply; plus (e) the real search at depths 1-2 on legal extreme-material roots (5-9 queens + rooks/minors against a nearly bare king, with and without a forced mate) compared with the exact reference value: a material value must be reported as cp, a forced mate as mate. Workload: exhaustive single-piece basis (12 pieces x 64 squares x phases 0..26 by symmetric filler x both sides to move), random placements with up to nine queens a side (legal or not), positions from the start library. Non-trivial = at least one piece and a non-zero evaluation; distinct by FEN".into();
    run.assumptions = vec![
        "metamorphic oracle only: the tables themselves are not compared with an external copy of PeSTO".into(),
        "bound 50 000 = half the mate score; largest material constructible with nine queens a side evaluates near 1.4*10^4".into(),
    ];
    let random_jobs = tier.pick(256usize, 4096);
    let basis_jobs = 12 * 64;
    let results = par::par_map(basis_jobs + random_jobs + 1, |j| {
        let mut acc = Acc::new();
        let mut rng = Rng::stream(seed, j as u64);
        if j < basis_jobs {
            let kind = [Kind::Pawn, Kind::Knight, Kind::Bishop, Kind::Rook, Kind::Queen, Kind::King][j / 64 % 6];
            let color = if j / 64 >= 6 { Color::Black } else { Color::White };
            let s = (j % 64) as u8;
            for phase_pairs in 0..=13 {
                for stm in [Color::White, Color::Black] {
                    let mut p = Pos::empty();
                    p.sq[s as usize] = Some((color, kind));
                    p.stm = stm;
                    add_filler(&mut p, phase_pairs * 2, s);
                    check_placement(&p, &mut acc, &mut rng, j == 100 && phase_pairs == 3 && stm == Color::White);
                    acc.count("basis_placements", 1);
                }
            }
        } else if j < basis_jobs + random_jobs {
            for i in 0..4000 {
                let mut p = Pos::empty();
                let n = match rng.below(3) {
                    0 => rng.range(1, 6),
                    1 => rng.range(4, 24),
                    _ => rng.range(16, 40),
                };
                let heavy = rng.chance(1, 4);
                for _ in 0..n {
                    let s = rng.below(64) as usize;
                    let c = if rng.chance(1, 2) { Color::White } else { Color::Black };
                    let k = if heavy {
                        *rng.pick(&[Kind::Queen, Kind::Queen, Kind::Queen, Kind::Rook, Kind::Pawn])
                    } else {
                        *rng.pick(&[Kind::Pawn, Kind::Pawn, Kind::Pawn, Kind::Knight, Kind::Bishop, Kind::Rook, Kind::Queen, Kind::King])
                    };
                    if p.sq[s].is_none() && p.count(c, Kind::Queen) < 9 {
                        p.sq[s] = Some((c, k));
                    }
                }
                p.stm = if rng.chance(1, 2) { Color::White } else { Color::Black };
                check_placement(&p, &mut acc, &mut rng, i == 0 && j == basis_jobs);
                acc.count("random_placements", 1);
            }
        } else {
            if let Ok(lib) = crate::workload::start_positions(seed, 100) {
                for p in lib {
                    check_placement(&p, &mut acc, &mut rng, false);
                    acc.count("library_positions", 1);
                }
            }
        }
        acc
    });
    for a in results {
        run.acc.merge(a, &["max_abs_eval"]);
    }
    // mate range: extreme-material roots through the real search
    let h = crate::zobrist::ZobristHasher::create_zobrist_hasher();
    let mr_jobs = tier.pick(64usize, 640);
    let results = par::par_map(mr_jobs, |j| {
        let mut acc = Acc::new();
        let mut rng = Rng::stream(seed, 0xC14_0000 + j as u64);
        let mut n = 0;
        let mut tries = 0;
        while n < 6 && tries < 400 {
            tries += 1;
            if let Some(p) = extreme_material_position(&mut rng) {
                check_mate_range(&p, &h, &mut acc, j == 0 && n == 0);
                n += 1;
            }
        }
        if j == 0 {
            for fen in ["7k/6pp/8/8/8/8/QQRBBRNN/QQQQKQQQ w - -", "7k/6pp/8/8/8/8/QQRBBRNN/QQQQKQQQ b - -"] {
                check_mate_range(&Pos::parse_fen(fen).unwrap(), &h, &mut acc, false);
            }
        }
        acc
    });
    for a in results {
        run.acc.merge(a, &["max_abs_eval", "max_abs_search_value_non_mate"]);
    }
    // boards that were not built by the FEN loader
    let cw_jobs = tier.pick(192usize, 3000);
    let lib = crate::workload::start_positions(seed, 30).unwrap_or_default();
    let results = par::par_map(cw_jobs, |j| {
        let mut acc = Acc::new();
        let mut rng = Rng::stream(seed, 0xC14_8000 + j as u64);
        for _ in 0..6 {
            let start = if rng.chance(1, 2) || lib.is_empty() {
                match surplus_start(&mut rng) {
                    Some(p) => p,
                    None => continue,
                }
            } else {
                lib[rng.below(lib.len() as u64) as usize].clone()
            };
            carrier_walk(&start, 20 + rng.below(60) as usize, &h, &mut rng, &mut acc);
        }
        acc
    });
    for a in results {
        run.acc.merge(a, &["max_abs_eval"]);
    }
    run.set("exhaustive_families", json!(["single piece: 12 pieces x 64 squares x 14 filler levels (phase 0,2,..,26) x 2 sides to move"]));
    run.floor_distinct = 1000;
    run.finish()
}
