//! C14: static evaluation is colour-symmetric, side-relative, a function of placement and side
//! to move only, and bounded far below the mate range. Metamorphic monitor over the real
//! `get_evaluation`.

use crate::board::{BoardState, Piece, Point};
use crate::ev::{Acc, Run, Tier};
use crate::evaluation::get_evaluation;
use crate::glue::*;
use crate::oracle::*;
use crate::par;
use crate::rng::{hash64, Rng};
use serde_json::json;

const BOUND: i32 = 50_000;

pub fn eval_of(p: &Pos) -> Result<(i32, BoardState), String> {
    let fen = p.to_fen6(0, 1);
    par::catch(|| {
        let b = load_fen(&fen)?;
        let e = get_evaluation(&b);
        Ok::<_, String>((e, b))
    })
    .and_then(|r| r)
}

pub fn check_placement(p: &Pos, acc: &mut Acc, rng: &mut Rng, sample: bool) {
    acc.evaluations += 1;
    let case = json!({"kind": "placement", "property": "C14", "fen": p.to_fen()});
    let (e, b) = match eval_of(p) {
        Ok(x) => x,
        Err(msg) => {
            acc.violation(format!("C14|panic|{}", p.placement_fen()), format!("evaluating {} failed: {}", p.to_fen(), msg), case);
            return;
        }
    };
    let n_pieces = p.sq.iter().filter(|x| x.is_some()).count();
    if n_pieces > 0 && e != 0 {
        if acc.distinct.insert(hash64(&p.to_fen())) {
            acc.feature(if n_pieces == 1 { "single_piece" } else { "multi_piece" });
        }
    }
    if sample {
        acc.sample(json!({"fen": p.to_fen(), "eval": e}));
    }
    acc.max("max_abs_eval", e.unsigned_abs() as u64);
    if e.abs() > BOUND {
        acc.violation(format!("C14|bound|{}", p.to_fen()), format!("|eval({})| = {} exceeds {} (mate scores start at 99 985)", p.to_fen(), e, BOUND), case.clone());
    }
    // colour mirror
    let m = mirror(p);
    match eval_of(&m) {
        Ok((em, _)) => {
            if em != e {
                acc.violation(format!("C14|mirror|{}", p.to_fen()), format!("eval({}) = {} but its colour-mirrored twin {} evaluates to {}", p.to_fen(), e, m.to_fen(), em), case.clone());
            }
        }
        Err(msg) => acc.violation(format!("C14|panic|{}", m.placement_fen()), format!("evaluating {} failed: {}", m.to_fen(), msg), case.clone()),
    }
    // other side to move
    let mut o = p.clone();
    o.stm = p.stm.other();
    o.ep = None;
    match eval_of(&o) {
        Ok((eo, _)) => {
            if eo != -e {
                acc.violation(format!("C14|negate|{}", p.to_fen()), format!("eval({}) = {} but with the other side to move it is {} (expected {})", p.to_fen(), e, eo, -e), case.clone());
            }
        }
        Err(msg) => acc.violation(format!("C14|panic|{}", o.placement_fen()), format!("evaluating {} failed: {}", o.to_fen(), msg), case.clone()),
    }
    // nothing but placement and side to move
    let mut v = b.clone();
    v.white_king_side_castle = !v.white_king_side_castle;
    v.white_queen_side_castle = !v.white_queen_side_castle;
    v.black_king_side_castle = !v.black_king_side_castle;
    v.black_queen_side_castle = !v.black_queen_side_castle;
    v.pawn_double_move = if v.pawn_double_move.is_some() { None } else { Some(Point(4 + rng.below(4) as usize, 2 + rng.below(8) as usize)) };
    v.last_move = Some((Point(2 + rng.below(8) as usize, 2 + rng.below(8) as usize), Point(2 + rng.below(8) as usize, 2 + rng.below(8) as usize)));
    v.pawn_promotion = Some(Piece::queen(b.to_move));
    v.order_heuristic = rng.next() as i32;
    v.zobrist_key = rng.next();
    v.white_king_location = Point(2 + rng.below(8) as usize, 2 + rng.below(8) as usize);
    v.black_king_location = Point(2 + rng.below(8) as usize, 2 + rng.below(8) as usize);
    match par::catch(|| get_evaluation(&v)) {
        Ok(ev) => {
            if ev != e {
                acc.violation(format!("C14|extra-state|{}", p.to_fen()), format!("eval({}) changes from {} to {} when only rights / ep target / last move / promotion / ordering value / key / king caches change", p.to_fen(), e, ev), case);
            }
        }
        Err(msg) => acc.violation(format!("C14|panic-extra|{}", p.placement_fen()), format!("evaluating {} with altered non-placement fields panicked: {}", p.to_fen(), msg), case),
    }
}

/// Symmetric filler realising game phase `phase` (each pair = white piece + black piece on the
/// mirrored square, so the filler's own contribution cancels). Avoids `reserved`.
pub fn add_filler(p: &mut Pos, phase: i32, reserved: u8) {
    // phase values: N/B 1, R 2, Q 4 ; a mirrored pair adds twice that
    let mut left = phase;
    let mut squares: Vec<u8> = (8..32u8).filter(|&s| s != reserved && (7 - rank_of(s)) * 8 + file_of(s) != reserved as i32).collect();
    squares.reverse();
    while left >= 2 {
        let s = match squares.pop() {
            Some(s) => s,
            None => return,
        };
        let t = ((7 - rank_of(s)) * 8 + file_of(s)) as u8;
        let k = if left >= 8 {
            left -= 8;
            Kind::Queen
        } else if left >= 4 {
            left -= 4;
            Kind::Rook
        } else {
            left -= 2;
            Kind::Knight
        };
        p.sq[s as usize] = Some((Color::White, k));
        p.sq[t as usize] = Some((Color::Black, k));
    }
}

pub fn run(tier: Tier, seed: u64) -> i32 {
    let mut run = Run::new("C14", tier, seed, "exploration");
    run.rule = "evaluation = one placement for which eval is compared with (a) the eval of its colour-mirrored twin, (b) the negated eval with the other side to move, (c) the eval after scrambling every non-placement field, (d) the bound 50 000. Workload: exhaustive single-piece basis (12 pieces x 64 squares x phases 0..26 by symmetric filler x both sides to move), random placements with up to nine queens a side (legal or not), positions from the start library. Non-trivial = at least one piece and a non-zero evaluation; distinct by FEN".into();
    run.assumptions = vec![
        "metamorphic oracle only: the tables themselves are not compared with an external copy of PeSTO".into(),
        "bound 50 000 = half the mate score; largest material constructible with nine queens a side evaluates near 1.4*10^4".into(),
    ];
    let random_jobs = tier.pick(256usize, 4096);
    let basis_jobs = 12 * 64;
    let results = par::par_map(basis_jobs + random_jobs + 1, |j| {
        let mut acc = Acc::new();
        let mut rng = Rng::stream(seed, j as u64);
        if j < basis_jobs {
            let kind = [Kind::Pawn, Kind::Knight, Kind::Bishop, Kind::Rook, Kind::Queen, Kind::King][j / 64 % 6];
            let color = if j / 64 >= 6 { Color::Black } else { Color::White };
            let s = (j % 64) as u8;
            for phase_pairs in 0..=13 {
                for stm in [Color::White, Color::Black] {
                    let mut p = Pos::empty();
                    p.sq[s as usize] = Some((color, kind));
                    p.stm = stm;
                    add_filler(&mut p, phase_pairs * 2, s);
                    check_placement(&p, &mut acc, &mut rng, j == 100 && phase_pairs == 3 && stm == Color::White);
                    acc.count("basis_placements", 1);
                }
            }
        } else if j < basis_jobs + random_jobs {
            for i in 0..4000 {
                let mut p = Pos::empty();
                let n = match rng.below(3) {
                    0 => rng.range(1, 6),
                    1 => rng.range(4, 24),
                    _ => rng.range(16, 40),
                };
                let heavy = rng.chance(1, 4);
                for _ in 0..n {
                    let s = rng.below(64) as usize;
                    let c = if rng.chance(1, 2) { Color::White } else { Color::Black };
                    let k = if heavy {
                        *rng.pick(&[Kind::Queen, Kind::Queen, Kind::Queen, Kind::Rook, Kind::Pawn])
                    } else {
                        *rng.pick(&[Kind::Pawn, Kind::Pawn, Kind::Pawn, Kind::Knight, Kind::Bishop, Kind::Rook, Kind::Queen, Kind::King])
                    };
                    if p.sq[s].is_none() && p.count(c, Kind::Queen) < 9 {
                        p.sq[s] = Some((c, k));
                    }
                }
                p.stm = if rng.chance(1, 2) { Color::White } else { Color::Black };
                check_placement(&p, &mut acc, &mut rng, i == 0 && j == basis_jobs);
                acc.count("random_placements", 1);
            }
        } else {
            if let Ok(lib) = crate::workload::start_positions(seed, 100) {
                for p in lib {
                    check_placement(&p, &mut acc, &mut rng, false);
                    acc.count("library_positions", 1);
                }
            }
        }
        acc
    });
    for a in results {
        run.acc.merge(a, &["max_abs_eval"]);
    }
    run.set("exhaustive_families", json!(["single piece: 12 pieces x 64 squares x 14 filler levels (phase 0,2,..,26) x 2 sides to move"]));
    run.floor_distinct = 1000;
    run.finish()
}
