//! C10: (a) after a `position` command the repetition record holds exactly the occurrence count of
//! every position of the described game and nothing else; (b) a move into a position that already
//! occurred at least twice is valued as a draw, so the final score of each completed depth is >= 0.

use super::rules_driver::truncate;
use super::search::{make_root, root_case, Root};
use super::searchlib::*;
use crate::ev::{Acc, Run, Tier};
use crate::glue::*;
use crate::oracle::*;
use crate::par;
use crate::rng::{hash64, Rng};
use crate::verif::Ev;
use crate::workload::{self, Policy};
use crate::zobrist::ZobristHasher;
use serde_json::json;
use std::collections::HashMap;

/// History with several repetition sites and irreversible moves in between.
pub fn rich_history(start: &Pos, rng: &mut Rng, max_plies: usize) -> History {
    let mut p = start.clone();
    let mut moves: Vec<Mv> = Vec::new();
    let segments = 1 + rng.below(3);
    for _ in 0..segments {
        // some free play (may include irreversible moves)
        for _ in 0..rng.below(10) {
            let ms = legal_moves(&p);
            if ms.is_empty() {
                break;
            }
            let m = workload::choose_move(rng, &p, &ms, Policy::Mixed);
            let np = apply(&p, m);
            if !has_legal_move(&np) {
                break;
            }
            moves.push(m);
            p = np;
        }
        let cycles = match rng.below(6) {
            0 => 1,
            1 => 2,
            2 => 3,
            3 => rng.range(4, 12) as usize,
            4 => rng.range(12, 50) as usize,
            _ => rng.range(50, 99) as usize,
        };
        if let Some(cyc) = find_cycle(&p, rng) {
            for _ in 0..cycles {
                if moves.len() + 4 > max_plies {
                    break;
                }
                for m in cyc {
                    moves.push(m);
                    p = apply(&p, m);
                }
            }
        }
        if moves.len() + 14 > max_plies {
            break;
        }
    }
    History { start: start.clone(), moves, end: p }
}

/// A very long game: one shuffle repeated `cycles` times (counts beyond 255 need more than a
/// thousand plies), a few free moves before and after.
pub fn long_history(start: &Pos, rng: &mut Rng, cycles: usize) -> Option<History> {
    let mut p = start.clone();
    let mut moves: Vec<Mv> = Vec::new();
    for _ in 0..rng.below(6) {
        let ms = legal_moves(&p);
        if ms.is_empty() {
            break;
        }
        let m = workload::choose_move(rng, &p, &ms, Policy::Mixed);
        let np = apply(&p, m);
        if !has_legal_move(&np) {
            break;
        }
        moves.push(m);
        p = np;
    }
    let cyc = find_cycle(&p, rng)?;
    for _ in 0..cycles {
        for m in cyc {
            moves.push(m);
            p = apply(&p, m);
        }
    }
    for _ in 0..rng.below(3) {
        let ms = legal_moves(&p);
        if ms.is_empty() {
            break;
        }
        let m = workload::choose_move(rng, &p, &ms, Policy::Mixed);
        let np = apply(&p, m);
        if !has_legal_move(&np) {
            break;
        }
        moves.push(m);
        p = np;
    }
    Some(History { start: start.clone(), moves, end: p })
}

/// A very long game with MANY DISTINCT positions (the shuffles of `long_history` revisit a handful):
/// a free walk until `distinct` different positions were met, then a short cycle walked `cycles`
/// times so that the last positions carry counts above one. Record capacities, tables that stop
/// growing, keys truncated for a table index show only here.
pub fn wide_history(start: &Pos, rng: &mut Rng, distinct: usize, cycles: usize, h: &ZobristHasher) -> Option<History> {
    let mut p = start.clone();
    let mut moves: Vec<Mv> = Vec::new();
    let mut seen = std::collections::HashSet::new();
    seen.insert(key_of_pos(&p, h));
    while seen.len() < distinct {
        if moves.len() > 4 * distinct + 2000 {
            return None;
        }
        let ms = legal_moves(&p);
        // keep the game alive: a successor with a legal reply
        let mut pick = None;
        for _ in 0..8 {
            let m = workload::choose_move(rng, &p, &ms, if moves.len() % 7 == 0 { Policy::Mixed } else { Policy::Uniform });
            let np = apply(&p, m);
            if has_legal_move(&np) {
                pick = Some((m, np));
                break;
            }
        }
        let (m, np) = pick?;
        moves.push(m);
        p = np;
        seen.insert(key_of_pos(&p, h));
    }
    let cyc = find_cycle(&p, rng)?;
    for _ in 0..cycles {
        for m in cyc {
            moves.push(m);
            p = apply(&p, m);
        }
    }
    Some(History { start: start.clone(), moves, end: p })
}

/// Expected record: from-scratch key of every position of the game -> occurrence count.
pub fn expected_table(hist: &History, h: &ZobristHasher) -> (HashMap<u64, u32>, u32) {
    let mut m: HashMap<u64, u32> = HashMap::new();
    let mut p = hist.start.clone();
    *m.entry(key_of_pos(&p, h)).or_insert(0) += 1;
    for mv in &hist.moves {
        p = apply(&p, *mv);
        *m.entry(key_of_pos(&p, h)).or_insert(0) += 1;
    }
    let max = m.values().copied().max().unwrap_or(0);
    (m, max)
}

pub fn compare_table(hist: &History, got: &[(u64, u32)], h: &ZobristHasher) -> Option<String> {
    let (want, _) = expected_table(hist, h);
    let gotm: HashMap<u64, u32> = got.iter().map(|(k, v)| (*k, *v)).collect();
    let mut wrong = Vec::new();
    // name the positions by walking the game again
    let mut p = hist.start.clone();
    let mut seen = std::collections::HashSet::new();
    let mut ply = 0;
    loop {
        let k = key_of_pos(&p, h);
        if seen.insert(k) {
            let w = want[&k];
            let g = gotm.get(&k).copied().unwrap_or(0);
            if w != g && wrong.len() < 3 {
                wrong.push(format!("{} (first at ply {}) recorded {}x, occurred {}x", p.to_fen(), ply, g, w));
            }
        }
        if ply >= hist.moves.len() {
            break;
        }
        p = apply(&p, hist.moves[ply]);
        ply += 1;
    }
    let stray: Vec<String> = gotm.iter().filter(|(k, v)| **v != 0 && !want.contains_key(k)).take(3).map(|(k, v)| format!("{:016x}:{}", k, v)).collect();
    if !stray.is_empty() {
        wrong.push(format!("{} non-zero entries for positions that are not in the game, e.g. {}", gotm.iter().filter(|(k, v)| **v != 0 && !want.contains_key(k)).count(), stray.join(",")));
    }
    if wrong.is_empty() {
        None
    } else {
        Some(wrong.join("; "))
    }
}

/// Materially lost positions with the losing side to move and room to shuffle.
pub fn lost_positions(rng: &mut Rng, starts: &[Pos]) -> Vec<Pos> {
    let mut v: Vec<Pos> = Vec::new();
    for fen in [
        "4k3/8/8/8/8/8/3Q4/4K3 b - -",
        "4k3/8/8/8/8/8/3R4/4K3 b - -",
        "4k3/8/8/8/8/3QQ3/8/4K3 b - -",
        "6k1/5ppp/8/8/8/8/Q4PPP/R5K1 b - -",
        "r5k1/5ppp/8/8/8/8/QQ3PPP/6K1 b - -",
        "4K3/8/8/8/8/8/3q4/4k3 w - -",
        "4K3/8/8/8/8/2rr4/8/4k3 w - -",
        "2k5/ppp5/8/8/8/8/PPP2Q2/2K4R b - -",
        "3nk3/8/8/8/8/8/2QR4/4K3 b - -",
    ] {
        v.push(Pos::parse_fen(fen).unwrap());
    }
    // strip the side to move of its heavy pieces in library / walk positions
    for _ in 0..40 {
        let mut p = starts[rng.below(starts.len() as u64) as usize].clone();
        let us = p.stm;
        let mut removed = 0;
        for s in 0..64 {
            if let Some((c, k)) = p.sq[s] {
                if c == us && matches!(k, Kind::Queen | Kind::Rook | Kind::Bishop) {
                    p.sq[s] = None;
                    removed += 1;
                }
            }
        }
        p.castle = [false; 4];
        p.ep = None;
        let them_heavy = p.count(us.other(), Kind::Queen) + p.count(us.other(), Kind::Rook);
        if removed >= 2 && them_heavy >= 2 && is_legal_position(&p) && !in_check(&p, us) && has_legal_move(&p) {
            v.push(p);
        }
    }
    v
}

/// Perpetual-check shapes: a position A (the materially lost side Y to move) with a checking move
/// y1 to which the winning side X has exactly ONE legal reply x1, such that y1^-1 and x1^-1 lead
/// back to A. Returns (C, [y1^-1, x1^-1, y1, x1]) where C = A after y1 x1 (Y to move): the history
/// C + two rounds of the cycle minus the last move ends with X to move and a forced reply, after
/// which Y can step into a position that has occurred twice. Used for `go` after `go`: what the
/// first answer is does not depend on the engine.
/// One irreversible move (pawn push or capture) in front of a position: a legal position `pre`
/// and a move `m` of the side that has just moved in `t` with apply(pre, m) == t, found by
/// un-making a move of one of that side's men (pawn one step back; any man back to an empty
/// square with a captured enemy man put in its place). None if no such predecessor is found.
pub fn irreversible_predecessor(t: &Pos, rng: &mut Rng) -> Option<(Pos, Mv)> {
    if t.ep.is_some() {
        return None;
    }
    let mover = t.stm.other();
    let mut cands: Vec<(Pos, Mv)> = Vec::new();
    let mut squares: Vec<u8> = (0..64u8).filter(|s| matches!(t.sq[*s as usize], Some((c, _)) if c == mover)).collect();
    rng.shuffle(&mut squares);
    for to in squares.into_iter().take(6) {
        let (_, kind) = t.sq[to as usize].unwrap();
        let mut froms: Vec<u8> = (0..64u8).filter(|f| t.sq[*f as usize].is_none()).collect();
        rng.shuffle(&mut froms);
        for from in froms.into_iter().take(24) {
            let captured: &[Option<Kind>] = if kind == Kind::Pawn { &[None, Some(Kind::Knight), Some(Kind::Pawn)] } else { &[Some(Kind::Knight), Some(Kind::Bishop), Some(Kind::Rook), Some(Kind::Pawn)] };
            for cap in captured {
                let mut pre = t.clone();
                pre.stm = mover;
                pre.sq[to as usize] = cap.map(|k| (mover.other(), k));
                pre.sq[from as usize] = Some((mover, kind));
                pre.ep = None;
                if let Some(Kind::Pawn) = cap {
                    let r = to / 8;
                    if r == 0 || r == 7 {
                        continue;
                    }
                }
                if !is_legal_position(&pre) {
                    continue;
                }
                let m = Mv { from, to, promo: None };
                if legal_moves(&pre).contains(&m) && apply(&pre, m) == *t {
                    cands.push((pre, m));
                }
            }
        }
        if cands.len() >= 4 {
            break;
        }
    }
    if cands.is_empty() {
        None
    } else {
        let i = rng.below(cands.len() as u64) as usize;
        Some(cands.swap_remove(i))
    }
}

/// The game behind a part-b root: `n` shuffle cycles from `base` (lost side to move), so that
/// the lost side's move `cyc[0]` leads to a position that has occurred `n` times. `preamble`:
/// 0 = the game starts at `base`; 1 = an irreversible move of the lost side leads straight to the
/// target position (the target is the position that arose from the last capture or pawn move of
/// the game); 2 = an irreversible move of the other side leads to `base` (the target arises one
/// reversible ply after it). Falls back to 0 when no predecessor is found.
pub fn cycle_history(base: &Pos, cyc: [Mv; 4], n: usize, preamble: u8, rng: &mut Rng) -> (History, u8) {
    let plain = |n: usize| {
        let mut moves = Vec::new();
        let mut p = base.clone();
        for _ in 0..n {
            for m in cyc {
                moves.push(m);
                p = apply(&p, m);
            }
        }
        History { start: base.clone(), moves, end: p }
    };
    match preamble {
        1 if n >= 2 => {
            let t = apply(base, cyc[0]);
            if let Some((pre, m0)) = irreversible_predecessor(&t, rng) {
                // pre -m0-> T, then (c1 c2 c3 c0) x (n-1), then c1 c2 c3: T has occurred n times
                let mut moves = vec![m0];
                let mut p = t.clone();
                for k in 0..n {
                    for (i, m) in [cyc[1], cyc[2], cyc[3], cyc[0]].into_iter().enumerate() {
                        if k == n - 1 && i == 3 {
                            break;
                        }
                        moves.push(m);
                        p = apply(&p, m);
                    }
                }
                if p == *base {
                    return (History { start: pre, moves, end: p }, 1);
                }
            }
            (plain(n), 0)
        }
        2 => {
            if let Some((pre, m0)) = irreversible_predecessor(base, rng) {
                let h = plain(n);
                let mut moves = vec![m0];
                moves.extend(h.moves.iter().copied());
                return (History { start: pre, moves, end: h.end }, 2);
            }
            (plain(n), 0)
        }
        _ => (plain(n), 0),
    }
}

pub fn forced_reply_cycle(rng: &mut Rng) -> Option<(Pos, [Mv; 4])> {
    let mut a = Pos::empty();
    // X = White here; mirrored at random at the end
    let edge: Vec<u8> = (0..64u8).filter(|s| file_of(*s) == 0 || file_of(*s) == 7 || rank_of(*s) == 0 || rank_of(*s) == 7).collect();
    let xk = *rng.pick(&edge);
    a.sq[xk as usize] = Some((Color::White, Kind::King));
    // shelter: own men next to the king
    let mut neigh: Vec<u8> = Vec::new();
    for df in -1..=1 {
        for dr in -1..=1 {
            if (df, dr) != (0, 0) {
                if let Some(s) = sq_at(file_of(xk) + df, rank_of(xk) + dr) {
                    neigh.push(s);
                }
            }
        }
    }
    rng.shuffle(&mut neigh);
    for s in neigh.iter().take(1 + rng.below(3) as usize) {
        let k = *rng.pick(&[Kind::Pawn, Kind::Pawn, Kind::Knight, Kind::Bishop]);
        if k == Kind::Pawn && (rank_of(*s) == 0 || rank_of(*s) == 7) {
            continue;
        }
        a.sq[*s as usize] = Some((Color::White, k));
    }
    let mut put = |a: &mut Pos, rng: &mut Rng, pc: (Color, Kind)| {
        for _ in 0..20 {
            let s = rng.below(64) as u8;
            if a.sq[s as usize].is_none() && !(pc.1 == Kind::Pawn && (rank_of(s) == 0 || rank_of(s) == 7)) {
                a.sq[s as usize] = Some(pc);
                return;
            }
        }
    };
    // X's winning material
    for _ in 0..(1 + rng.below(3)) {
        let k = *rng.pick(&[Kind::Queen, Kind::Rook, Kind::Knight, Kind::Knight, Kind::Bishop, Kind::Pawn, Kind::Pawn]);
        put(&mut a, rng, (Color::White, k));
    }
    put(&mut a, rng, (Color::White, Kind::Queen));
    // Y: king and one checking piece, perhaps a pawn
    put(&mut a, rng, (Color::Black, Kind::King));
    let yk = *rng.pick(&[Kind::Rook, Kind::Rook, Kind::Queen, Kind::Bishop]);
    put(&mut a, rng, (Color::Black, yk));
    if rng.chance(1, 3) {
        put(&mut a, rng, (Color::Black, Kind::Pawn));
    }
    a.stm = Color::Black;
    let a = if rng.chance(1, 2) { mirror(&a) } else { a };
    if !is_legal_position(&a) || in_check(&a, a.stm) {
        return None;
    }
    let y = a.stm;
    // materially lost: X is at least a rook ahead
    let val = |k: Kind| match k { Kind::Queen => 9, Kind::Rook => 5, Kind::Bishop | Kind::Knight => 3, Kind::Pawn => 1, Kind::King => 0 };
    let mut bal = 0i32;
    for s in 0..64 {
        if let Some((c, k)) = a.sq[s] {
            bal += if c == y { -val(k) } else { val(k) };
        }
    }
    if bal < 5 {
        return None;
    }
    for y1 in legal_moves(&a) {
        let (_, k) = a.sq[y1.from as usize]?;
        if k == Kind::Pawn || k == Kind::King || is_capture(&a, y1) {
            continue;
        }
        let b = apply(&a, y1);
        if !in_check(&b, b.stm) {
            continue;
        }
        let lb = legal_moves(&b);
        if lb.len() != 1 {
            continue;
        }
        let x1 = lb[0];
        let (_, kx) = b.sq[x1.from as usize]?;
        if kx == Kind::Pawn || is_capture(&b, x1) || is_castle(&b, x1) {
            continue;
        }
        let c = apply(&b, x1);
        let y1inv = Mv { from: y1.to, to: y1.from, promo: None };
        if !legal_moves(&c).contains(&y1inv) {
            continue;
        }
        let d = apply(&c, y1inv);
        let x1inv = Mv { from: x1.to, to: x1.from, promo: None };
        if !legal_moves(&d).contains(&x1inv) {
            continue;
        }
        if apply(&d, x1inv) == a && has_legal_move(&c) {
            return Some((c, [y1inv, x1inv, y1, x1]));
        }
    }
    None
}

/// Perpetual check with sparse material: A (lost side Y to move), y1 checks and X has exactly one
/// reply x1, then y1^-1 checks as well and X has exactly one reply x1^-1, which restores A.
/// Y can force the cycle for ever; whether the search sees the draw depends on the occurrences
/// in the game AND on the current line being counted together.
pub fn perpetual_cycle(rng: &mut Rng) -> Option<(Pos, [Mv; 4])> {
    let mut a = Pos::empty();
    let put = |a: &mut Pos, rng: &mut Rng, pc: (Color, Kind), edge: bool| {
        for _ in 0..30 {
            let s = if edge { sq_at(*rng.pick(&[0, 7, 0, 7, 1, 6]), rng.below(8) as i32).unwrap() } else { rng.below(64) as u8 };
            let s = if edge && rng.chance(1, 2) { sq_at(rank_of(s), file_of(s)).unwrap() } else { s };
            if a.sq[s as usize].is_none() && !(pc.1 == Kind::Pawn && (rank_of(s) == 0 || rank_of(s) == 7)) {
                a.sq[s as usize] = Some(pc);
                return;
            }
        }
    };
    put(&mut a, rng, (Color::White, Kind::King), true);
    put(&mut a, rng, (Color::Black, Kind::King), false);
    let k1 = *rng.pick(&[Kind::Queen, Kind::Queen, Kind::Rook]);
    put(&mut a, rng, (Color::Black, k1), false);
    // X's winning material: one or two heavy pieces, perhaps a pawn or two near the king
    let k2 = *rng.pick(&[Kind::Queen, Kind::Rook]);
    put(&mut a, rng, (Color::White, k2), false);
    let k3 = *rng.pick(&[Kind::Rook, Kind::Queen, Kind::Bishop, Kind::Knight]);
    put(&mut a, rng, (Color::White, k3), false);
    for _ in 0..rng.below(3) {
        put(&mut a, rng, (Color::White, Kind::Pawn), true);
    }
    a.stm = Color::Black;
    let a = if rng.chance(1, 2) { mirror(&a) } else { a };
    if !is_legal_position(&a) || in_check(&a, a.stm) {
        return None;
    }
    for y1 in legal_moves(&a) {
        let (_, k) = a.sq[y1.from as usize]?;
        if k == Kind::Pawn || k == Kind::King || is_capture(&a, y1) {
            continue;
        }
        let b = apply(&a, y1);
        if !in_check(&b, b.stm) {
            continue;
        }
        let lb = legal_moves(&b);
        if lb.len() != 1 {
            continue;
        }
        let x1 = lb[0];
        let (_, kx) = b.sq[x1.from as usize]?;
        if kx != Kind::King || is_capture(&b, x1) {
            continue;
        }
        let c = apply(&b, x1);
        let y1inv = Mv { from: y1.to, to: y1.from, promo: None };
        if !legal_moves(&c).contains(&y1inv) {
            continue;
        }
        let d = apply(&c, y1inv);
        if !in_check(&d, d.stm) {
            continue;
        }
        let ld = legal_moves(&d);
        let x1inv = Mv { from: x1.to, to: x1.from, promo: None };
        if ld.len() != 1 || ld[0] != x1inv {
            continue;
        }
        if apply(&d, x1inv) == a {
            return Some((a, [y1, x1, y1inv, x1inv]));
        }
    }
    None
}

/// Part d for one root (also used by replays): real search to depth 7 against the exact
/// reference at the same depths. Returns (reference values, last score per depth).
pub fn check_line_repetition_root(root: &Root, what: &str, h: &ZobristHasher, acc: &mut Acc) -> (Vec<Option<i32>>, Vec<(u64, i64)>) {
    let max_d = 7u8;
    let r = run_search(&root.board, &root.table, None, max_d);
    acc.evaluations += 1;
    if let Some(pn) = &r.panic {
        acc.violation(format!("C10|panic-search|{}", root.hist.command()), format!("search panicked: {}", pn), json!({"kind": "search", "property": "C10", "sub": "line-repetition", "position_command": root.hist.command(), "depth_limit": max_d}));
        return (vec![], vec![]);
    }
    let mut last: std::collections::BTreeMap<u64, (i64, String)> = Default::default();
    for e in &r.report.events {
        if let Ev::Line(l) = e {
            if let Ok(i) = parse_info(l, true) {
                last.insert(i.depth, (score_key(&i.score), l.clone()));
            }
        }
    }
    // reference values, cheapest depths first, within a node budget
    let mut rs = RefSearch::new(h, 8_000_000);
    let mut refv: Vec<Option<i32>> = vec![None; max_d as usize + 1];
    for d in 1..=max_d {
        let (v, _) = rs.root(&root.board, d, &root.table);
        if rs.over_budget {
            break;
        }
        refv[d as usize] = Some(v);
    }
    let mut judged = 0;
    for d in 2..=max_d as usize {
        if let (Some(v0), Some(v1)) = (refv[d - 1], refv[d]) {
            if v0 >= 0 && v1 >= 0 {
                if let Some((sc, l)) = last.get(&(d as u64)) {
                    judged += 1;
                    if *sc < 0 {
                        acc.violation(
                            format!("C10|missed-draw-line|{}|d{}", root.hist.command(), d),
                            format!("{} ({}): the exact search values depth {} at {} and depth {} at {} (the repetition completed inside the line is a draw), the real search ends depth {} with a negative score: {:?}", root.hist.end.to_fen(), what, d - 1, v0, d, v1, d, l),
                            json!({"kind": "search", "property": "C10", "sub": "line-repetition", "position_command": root.hist.command(), "depth_limit": max_d}),
                        );
                    }
                }
            }
        }
    }
    if judged > 0 {
        acc.feature("perpetual_check_root_with_depths_judged");
        acc.count("perpetual_depths_judged", judged);
    }
    (refv, last.iter().map(|(d, (s, _))| (*d, *s)).collect())
}

/// Part d: the draw that needs the game AND the current line. The lost side has a perpetual
/// check; the game so far went through the cycle's positions at most once, so no root move leads
/// to a position that occurred twice - the third occurrence is completed inside the search line.
/// Oracle: the exact reference search (same leaf rules, heuristic-free) is run at the same
/// depths; from the first depth at which it sees a value >= 0 twice in a row, every completed
/// depth of the real search must end >= 0 as well. Sound for any pruning that only ever cuts
/// lines off (the cycle consists of the lost side's checks and forced replies, null moves are
/// not tried in check, so the line itself is never pruned).
pub fn perpetual_roots(run: &mut Run, h: &ZobristHasher) {
    let seed = run.seed;
    let jobs = run.tier.pick(24usize, 240);
    let res = par::par_map(jobs, |j| {
        let mut acc = Acc::new();
        let mut rng = Rng::stream(seed, 0xC10_D000 + j as u64);
        let mut found = None;
        for _ in 0..200_000 {
            if let Some(x) = perpetual_cycle(&mut rng) {
                found = Some(x);
                break;
            }
        }
        let (a, cyc) = match found {
            Some(x) => x,
            None => {
                acc.count("perpetual_cycle_not_found", 1);
                return acc;
            }
        };
        // the game so far: a prefix of the cycle of 1..5 plies starting at A
        let plies = [2usize, 1, 3, 4, 5, 2][j % 6];
        let mut moves = Vec::new();
        let mut p = a.clone();
        for i in 0..plies {
            let m = cyc[i % 4];
            moves.push(m);
            p = apply(&p, m);
        }
        let hist = History { start: a.clone(), moves, end: p.clone() };
        let root = match make_root(hist, h) {
            Ok(r) => r,
            Err(e) => {
                acc.violation(format!("C10|panic-d|{}", a.to_fen()), format!("position handler panicked: {}", e), json!({"kind": "position_line", "property": "C10"}));
                return acc;
            }
        };
        acc.distinct.insert(hash64(&format!("perp|{}", root.hist.command())));
        acc.feature("perpetual_check_root");
        let what = format!("lost side to move, perpetual check {} {} {} {} available, game so far: {} plies of it", cyc[0], cyc[1], cyc[2], cyc[3], plies);
        let (refv, last) = check_line_repetition_root(&root, &what, h, &mut acc);
        if j == 0 {
            acc.sample(json!({"perpetual_root": root.hist.command(), "cycle": cyc.iter().map(|m| m.to_string()).collect::<Vec<_>>(), "reference_values": refv, "engine_last_scores": last}));
        }
        acc
    });
    for a in res {
        run.acc.merge(a, &[]);
    }
}

pub fn run(tier: Tier, seed: u64) -> i32 {
    let mut run = Run::new("C10", tier, seed, "exploration");
    run.rule = "part a: evaluation = one game history (<= 400 plies, 1-3 repetition sites with 1..99 cycles each, irreversible moves in between, startpos and fen forms; one history per job is a very long game of 1000-2400 plies whose shuffle repeats 253..600 times; one history in every eighth job is a free game that meets 1000..4200 distinct positions before its final repetition) loaded through the real position handler function; the repetition record must equal the oracle's occurrence count of every position (identity: placement, side, rights, ep file) with no other non-zero entry; sessions of several position commands on the hooked binary observe the same after the real handler's clear(). part b: evaluation = one search (virtual clock, depth limits 1..5, and timed go on the real binary) from a root where the side to move is materially lost and has a move into a position that already occurred n >= 2 times (n = 2, 3, 4, 5 and, for very long games, 255, 256, 257, 258, 512); refuter: the last info score of a completed depth is below zero. part d: perpetual-check roots with sparse material whose game went through the cycle at most once, so that the third occurrence is completed inside the search line (game plus current line): from the depth at which the exact reference search values the root >= 0 twice in a row, every completed depth of the real search (limit 7) must end >= 0. Non-trivial (a) = a history whose maximum count is >= 2, (b) = every such root; distinct by position command (+ depth limit)".into();
    run.assumptions = vec![
        "expected keys are computed from scratch through the hasher's getters (C05 covers key = position)".into(),
        "zero-count entries of the record are ignored (readers use unwrap_or(&0))".into(),
        "part b is sound in correct code because a root child that is a recorded repetition returns 0 before any pruning, so the root maximum is >= 0".into(),
        "on the real binary only depths below the last reported depth are judged (the last one may be incomplete)".into(),
    ];
    let h = ZobristHasher::create_zobrist_hasher();
    let starts = workload::start_positions(seed, 60).unwrap_or_default();
    // part a ------------------------------------------------------------------------------------
    let a_jobs = tier.pick(768usize, 2560);
    let results = par::par_map(a_jobs, |j| {
        let mut acc = Acc::new();
        let mut rng = Rng::stream(seed, 10_000 + j as u64);
        for i in 0..40 {
            let start = if rng.chance(1, 2) { Pos::start() } else { starts[rng.below(starts.len() as u64) as usize].clone() };
            // one history per job is a very long game: counts around and beyond 255, 511
            let long_cycles = [253usize, 254, 255, 256, 257, 300, 510, 511, 512, 600][j % 10];
            // one history in every eighth job is a game with 1000-4200 DISTINCT positions
            let wide_distinct = [1000usize, 1023, 1024, 1025, 1030, 1100, 2049, 4200][(j / 8) % 8];
            let hist = if i == 1 {
                long_history(&start, &mut rng, long_cycles).unwrap_or_else(|| rich_history(&start, &mut rng, 400))
            } else if i == 2 && j % 8 == 0 {
                match std::panic::catch_unwind(std::panic::AssertUnwindSafe(|| wide_history(&start, &mut rng, wide_distinct, 2 + (j / 64) % 2, &h))).ok().flatten() {
                    Some(hh) => {
                        acc.feature("game_with_1000_or_more_distinct_positions");
                        acc.max("max_distinct_positions_in_a_game", wide_distinct as u64);
                        hh
                    }
                    None => rich_history(&start, &mut rng, 400),
                }
            } else {
                rich_history(&start, &mut rng, 400)
            };
            acc.evaluations += 1;
            let (_, maxc) = expected_table(&hist, &h);
            let cmd = hist.command();
            if maxc >= 2 && acc.distinct.insert(hash64(&cmd)) {
                acc.feature(if maxc >= 256 { "count_256_or_more" } else if maxc >= 50 { "count_50_or_more" } else if maxc >= 3 { "count_3_or_more" } else { "count_2" });
            }
            acc.max("max_history_plies", hist.moves.len() as u64);
            acc.max("max_repetition_count", maxc as u64);
            if i == 0 && j < 2 {
                acc.sample(json!({"position_command": truncate(&cmd, 160), "plies": hist.moves.len(), "max_count": maxc}));
            }
            let case = json!({"kind": "position_line", "property": "C10", "line": cmd});
            match load_history(&hist, &h) {
                Ok((b, dt)) => {
                    if let Some(diff) = compare_table(&hist, &table_entries(&dt), &h) {
                        acc.violation(format!("C10|record|{}", hash64(&cmd)), format!("after '{}' the repetition record is wrong: {}", truncate(&cmd, 200), diff), case);
                    }
                }
                Err(e) => acc.violation(format!("C10|panic|{}", hash64(&cmd)), format!("'{}' panicked: {}", truncate(&cmd, 200), e), case),
            }
        }
        acc
    });
    for a in results {
        run.acc.merge(a, &["max_history_plies", "max_repetition_count", "max_distinct_positions_in_a_game"]);
    }
    // part b ------------------------------------------------------------------------------------
    let mut rng0 = Rng::stream(seed, 0xB10);
    let lost = lost_positions(&mut rng0, &starts);
    let mut roots_spec: Vec<(usize, usize)> = Vec::new(); // (lost index, cycles)
    let reps = tier.pick(6usize, 24);
    for _ in 0..reps {
        for i in 0..lost.len() {
            for n in [2usize, 3, 4, 5] {
                roots_spec.push((i, n));
            }
        }
    }
    // very long games: the target position occurred 255, 256, 257, 258 times
    for i in 0..lost.len().min(tier.pick(6, 1000)) {
        for n in [255usize, 256, 257, 258, 512] {
            roots_spec.push((i, n));
        }
    }
    let results = par::par_map(roots_spec.len(), |j| {
        let (li, n) = roots_spec[j];
        let mut acc = Acc::new();
        let mut rng = Rng::stream(seed, 20_000 + j as u64);
        let base = &lost[li];
        let cyc = match find_cycle(base, &mut rng) {
            Some(c) => c,
            None => return acc,
        };
        let (hist, pre) = cycle_history(base, cyc, n, (j % 3) as u8, &mut rng);
        match pre {
            1 => acc.feature("target_arose_from_the_last_irreversible_move"),
            2 => acc.feature("target_one_ply_after_the_last_irreversible_move"),
            _ => {}
        }
        let root = match make_root(hist, &h) {
            Ok(r) => r,
            Err(e) => {
                acc.violation(format!("C10|panic-b|{}", base.to_fen()), format!("position handler panicked: {}", e), json!({"kind": "position_line", "property": "C10"}));
                return acc;
            }
        };
        let pieces = base.sq.iter().filter(|x| x.is_some()).count();
        let depth = if pieces <= 6 { 5 } else if pieces <= 14 { 4 } else { 3 };
        acc.feature(&format!("target_occurred_{}x", n));
        c10_check_root(&root, depth, j < 3, &mut acc);
        acc
    });
    for a in results {
        run.acc.merge(a, &[]);
    }
    perpetual_roots(&mut run, &h);
    super::timed::c10_blackbox(&mut run, &lost);
    run.floor_distinct = 100;
    run.finish()
}

/// Part b for one root: if the side to move has a move into a position that already occurred at
/// least twice in the game, every completed depth must end with a score >= 0.
pub fn c10_check_root(root: &Root, depth: u8, sample: bool, acc: &mut Acc) {
    let counts = root.hist.counts();
    let targets: Vec<(Mv, u32)> = root.legal.iter().filter_map(|m| counts.get(&apply(&root.hist.end, *m).to_fen()).map(|c| (*m, *c))).filter(|(_, c)| *c >= 2).collect();
    if targets.is_empty() {
        return;
    }
    let r = run_search(&root.board, &root.table, None, depth);
    acc.evaluations += 1;
    let case = root_case("C10", root, depth, None);
    let fen = root.hist.end.to_fen();
    if let Some(pn) = &r.panic {
        acc.violation(format!("C10|panic-search|{}", root.hist.command()), format!("search panicked: {}", pn), case);
        return;
    }
    acc.distinct.insert(hash64(&format!("{}|{}", root.hist.command(), depth)));
    let mut cur = 0u8;
    let mut last: HashMap<u8, (i64, String)> = HashMap::new();
    for e in &r.report.events {
        match e {
            Ev::IterStart(d) => cur = *d,
            Ev::Line(l) => {
                if let Ok(info) = parse_info(l, true) {
                    last.insert(cur, (score_key(&info.score), l.clone()));
                }
            }
            _ => {}
        }
    }
    let mut scores: Vec<(u8, i64)> = last.iter().map(|(d, (s, _))| (*d, *s)).collect();
    scores.sort();
    if sample {
        acc.sample(json!({"root": fen, "history_plies": root.hist.moves.len(), "moves_into_repetitions": targets.iter().map(|(m, c)| format!("{} ({}x)", m, c)).collect::<Vec<_>>(), "final_score_per_depth": scores}));
    }
    for (d, (s, l)) in &last {
        if *s < 0 {
            acc.violation(
                format!("C10|missed-draw|{}|d{}", root.hist.command(), d),
                format!("{} (history of {} plies): {} leads to a position that already occurred {} times, yet completed depth {} ends with a negative score: {:?}", fen, root.hist.moves.len(), targets[0].0, targets[0].1, d, l),
                case.clone(),
            );
        }
    }
    if r.table_after != root.table_entries {
        acc.violation(format!("C10|table|{}", root.hist.command()), format!("repetition record changed by the search on {}", fen), case);
    }
}
