//! C16: the reply to `position X` + `go` depends on X and the go parameters alone, whatever
//! traffic preceded it in the session. Differential monitor against a fresh process.

use super::c03::{run_parallel, session_roots};
use super::c10::rich_history;
use super::rules_driver::truncate;
use super::searchlib::{find_cycle, make_history, parse_info, History, Score};
use crate::bb::{self, Dir, SpawnOpts};
use crate::ev::{Acc, Run, Tier};
use crate::oracle::*;
use crate::rng::{hash64, Rng};
use crate::sess::*;
use crate::workload;
use serde_json::json;
use std::collections::HashMap;
use std::path::PathBuf;
use std::sync::Mutex;
use std::time::Duration;

/// (depth, nodes, score, first pv move) of every info line of one go
pub type InfoSeq = Vec<(u64, u64, String, String)>;

pub fn info_seq(lines: &[String]) -> InfoSeq {
    lines
        .iter()
        .filter_map(|l| parse_info(l, true).ok())
        .map(|i| (i.depth, i.nodes, match i.score { Score::Cp(x) => format!("cp {}", x), Score::Mate(n) => format!("mate {}", n) }, i.pv[0].clone()))
        .collect()
}

pub fn prefix_compatible(a: &InfoSeq, b: &InfoSeq) -> bool {
    let n = a.len().min(b.len());
    a[..n] == b[..n]
}

#[derive(Clone)]
pub struct Probe {
    pub hist: History,
    pub timed: bool,
    /// games that share positions with the probe's search tree: replaying them earlier in the
    /// session makes any state that survives a `position` command visible in the probe's scores
    pub related: Vec<History>,
}

pub struct Reference {
    pub zero_answer: String,
    pub long_seq: InfoSeq,
}

fn timed_args(stm: Color, ms: u32) -> String {
    // plan = 0.8 * (clock - 100) / 1
    let clock = 100 + (ms as f64 / 0.8).round() as u64;
    format!("{} {} movestogo 1", if stm == Color::White { "wtime" } else { "btime" }, clock)
}

/// Fresh-engine answers for a probe: zero-slice bestmove and the info sequence of a 150 ms run.
fn reference_for(bin: &PathBuf, p: &Probe) -> Result<Reference, String> {
    let mut s = Sess::start(bin, SpawnOpts::default(), false)?;
    s.position(&p.hist);
    let mut g = s.go("", WATCHDOG);
    let zero = g.bestmove.clone().ok_or("fresh engine did not answer the zero-slice probe")?.0;
    s.settle(&mut g, WATCHDOG);
    let mut long_seq = Vec::new();
    if p.timed {
        let mut s2 = Sess::start(bin, SpawnOpts::default(), false)?;
        s2.position(&p.hist);
        let mut g2 = s2.go(&timed_args(p.hist.end.stm, 150), WATCHDOG);
        if g2.bestmove.is_none() {
            return Err("fresh engine did not answer the timed reference probe".into());
        }
        s2.settle(&mut g2, WATCHDOG);
        long_seq = info_seq(&g2.info_lines);
    }
    Ok(Reference { zero_answer: zero, long_seq })
}

const GARBAGE: &[&str] = &["", "debug on", "stop", "ponderhit", "register later", "xyzzy", "   ", "d", "eval", "perft 3", "uci2"];

fn prefix_traffic(s: &mut Sess, rng: &mut Rng, roots: &[History], probe: &Probe, n: usize, acc: &mut Acc) -> bool {
    for _ in 0..n {
        match rng.below(14) {
            0 => {
                s.eng.send("ucinewgame");
            }
            1 => {
                s.eng.send(if rng.chance(1, 2) { "setoption name DebugLogLevel value Info" } else { "setoption name DebugLogLevel value None" });
                acc.feature("prefix_setoption");
            }
            2 => {
                if !s.isready(WATCHDOG) {
                    return false;
                }
            }
            3 => {
                s.eng.send(*rng.pick(GARBAGE));
            }
            7 => {
                // a go whose line carries words of the UCI vocabulary the engine does not know
                // (searchmoves with legal and illegal moves, depth, nodes, mate, movetime), on the
                // probed game, on another game or on a finished game (mate / stalemate)
                let h = match rng.below(3) {
                    0 => probe.hist.clone(),
                    1 => roots[rng.below(roots.len() as u64) as usize].clone(),
                    _ => {
                        let p = Pos::parse_fen(*rng.pick(&["7k/5Q2/6K1/8/8/8/8/8 b - -", "R5k1/5ppp/8/8/8/8/8/6K1 b - -", "rnb1kbnr/pppp1ppp/8/4p3/6Pq/5P2/PPPPP2P/RNBQKBNR w KQkq -", "k7/2Q5/1K6/8/8/8/8/8 b - -"])).unwrap();
                        History { start: p.clone(), moves: vec![], end: p }
                    }
                };
                s.position(&h);
                let extra = *rng.pick(&["searchmoves e2e4", "searchmoves e2e5", "searchmoves h2h4 a7a5", "searchmoves a1a1", "depth 2", "nodes 100", "mate 1", "movetime 10", "searchmoves"]);
                let args = if rng.chance(1, 2) { extra.to_string() } else { format!("{} {}", timed_args(h.end.stm, 3 + rng.below(12) as u32), extra) };
                let mut g = s.go(&args, WATCHDOG);
                if g.bestmove.is_none() {
                    return false;
                }
                s.settle(&mut g, WATCHDOG);
                acc.feature("prefix_go_with_unknown_uci_words");
                if rng.chance(1, 3) {
                    s.eng.send("ucinewgame");
                }
            }
            4 | 5 | 6 => {
                // a game related to the probe (the probed game itself, a truncation of it, or a
                // shuffle from the probe's root that repeats positions of its search tree)
                let h = if probe.related.is_empty() || rng.chance(1, 4) {
                    let mut h = probe.hist.clone();
                    if rng.chance(1, 2) && h.moves.len() > 2 {
                        let cut = rng.below(h.moves.len() as u64) as usize;
                        h.moves.truncate(cut);
                        let mut p = h.start.clone();
                        for m in &h.moves {
                            p = apply(&p, *m);
                        }
                        h.end = p;
                    }
                    h
                } else {
                    probe.related[rng.below(probe.related.len() as u64) as usize].clone()
                };
                s.position(&h);
                acc.feature("prefix_related_game");
                if rng.chance(1, 3) {
                    s.eng.send("ucinewgame");
                }
                if has_legal_move(&h.end) && rng.chance(1, 2) {
                    let args = if rng.chance(1, 2) { String::new() } else { timed_args(h.end.stm, 5 + rng.below(25) as u32) };
                    let mut g = s.go(&args, WATCHDOG);
                    if g.bestmove.is_none() {
                        return false;
                    }
                    s.settle(&mut g, WATCHDOG);
                }
            }
            _ => {
                let h = &roots[rng.below(roots.len() as u64) as usize];
                s.position(h);
                let chain = 1 + rng.below(3);
                for _ in 0..chain {
                    let cur = match &s.cur {
                        Some(c) if has_legal_move(c) => c.clone(),
                        _ => break,
                    };
                    let args = if rng.chance(1, 2) { String::new() } else { timed_args(cur.stm, 3 + rng.below(25) as u32) };
                    let mut g = s.go(&args, WATCHDOG);
                    let bm = match &g.bestmove {
                        Some(b) => b.0.clone(),
                        None => return false,
                    };
                    s.settle(&mut g, WATCHDOG);
                    match parse_mv(&bm) {
                        Some(m) if legal_moves(&cur).contains(&m) => s.cur = Some(apply(&cur, m)),
                        _ => break,
                    }
                    acc.feature("prefix_search");
                }
            }
        }
    }
    true
}

pub fn probes(seed: u64, n: usize) -> Vec<Probe> {
    let starts = workload::start_positions(seed, 40).unwrap_or_default();
    let mut rng = Rng::stream(seed, 0xC16);
    let mut v = Vec::new();
    let lost = ["4k3/8/8/8/8/8/3Q4/4K3 b - -", "6k1/5ppp/8/8/8/8/Q4PPP/R5K1 b - -", "4K3/8/8/8/8/2rr4/8/4k3 w - -", "2k5/ppp5/8/8/8/8/PPP2Q2/2K4R b - -"];
    let mut guard = 0;
    while v.len() < n && guard < n * 20 {
        guard += 1;
        let hist = match v.len() % 5 {
            0 => {
                // repetition-sensitive probe: lost side to move, one or two shuffle cycles behind it
                let base = Pos::parse_fen(lost[rng.below(lost.len() as u64) as usize]).unwrap();
                match find_cycle(&base, &mut rng) {
                    Some(cyc) => {
                        let mut moves = Vec::new();
                        let mut p = base.clone();
                        for _ in 0..(1 + rng.below(2)) {
                            for m in cyc {
                                moves.push(m);
                                p = apply(&p, m);
                            }
                        }
                        History { start: base, moves, end: p }
                    }
                    None => continue,
                }
            }
            1 => rich_history(&starts[rng.below(starts.len() as u64) as usize], &mut rng, 60),
            2 => make_history(&Pos::start(), &mut rng, 30, 0, 0),
            3 => {
                // no move list at all: lost side to move, or the start position
                let b = if rng.chance(2, 3) { Pos::parse_fen(lost[rng.below(lost.len() as u64) as usize]).unwrap() } else { Pos::start() };
                History { start: b.clone(), moves: vec![], end: b }
            }
            _ => {
                let b = starts[rng.below(starts.len() as u64) as usize].clone();
                History { start: b.clone(), moves: vec![], end: b }
            }
        };
        if !has_legal_move(&hist.end) {
            continue;
        }
        let timed = v.len() % 5 != 2;
        // related games: shuffles (2 cycles) from the probe's root and from its start position
        let mut related = Vec::new();
        for base in [hist.end.clone(), hist.start.clone()] {
            for _ in 0..2 {
                if let Some(cyc) = find_cycle(&base, &mut rng) {
                    let mut moves = Vec::new();
                    let mut p = base.clone();
                    for _ in 0..2 {
                        for m in cyc {
                            moves.push(m);
                            p = apply(&p, m);
                        }
                    }
                    related.push(History { start: base.clone(), moves, end: p });
                }
            }
        }
        v.push(Probe { hist, timed, related });
    }
    v
}

pub fn run(tier: Tier, seed: u64) -> i32 {
    let mut run = Run::new("C16", tier, seed, "exploration");
    run.rule = "evaluation = one probe (`position X` + `go`) issued after a generated prefix of 1..60 commands in the same session of the real binary (other games with long move lists and repetitions, the probed game itself or truncations of it, zero-slice and timed searches, go chains, ucinewgame, both setoption forms, isready, unknown lines) and compared with a fresh process: zero-allowance probes must give the identical bestmove (also when repeated in the session); timed probes (5-40 ms) must report a sequence of (depth, nodes, score, first PV move) that is prefix-compatible with the fresh engine's 150 ms run. Pipelined variant: prefix (positions, go chains with plans <= 25 ms, the probed and related games, option line) and the zero-allowance probe (twice) written without waiting for any reply - one write, per line, or pieces that cut lines in two - and compared with the fresh engine's answer. One session in eight runs under ptrace delay injection (threads held at channel operations, thread start and standard-output entry points). Long sessions: the probed game searched once, then 253..258 / 509..514 (thorough: also about 1024, 4096 and 65536) zero-allowance searches of other positions written in one piece, then the timed and the zero-allowance probe - for state told apart by a small counter or generation number. Probes include repetition-sensitive roots (lost side to move behind one or two shuffle cycles) so that a leaked repetition record changes scores. Non-trivial = every probe after a non-empty prefix; distinct by (probe, prefix seed)".into();
    run.assumptions = vec![
        "an info line printed by the detached search thread just after bestmove belongs to the go that started it; the driver drains for 5 ms and uses isready as the boundary before the next command".into(),
        "fresh-engine references are computed once per probe and reused".into(),
    ];
    let plain = match bb::build_plain() {
        Ok(b) => b,
        Err(e) => {
            println!("INCONCLUSIVE {}", e);
            return 2;
        }
    };
    let roots = session_roots(seed ^ 16, tier.pick(80, 600));
    let prs = probes(seed, tier.pick(48, 400));
    // references, computed with few engines at a time so that the 150 ms runs are not starved
    let refs: Vec<Result<Reference, String>> = run_parallel(8, prs.len(), |i| reference_for(&plain, &prs[i]));
    let mut n_ref_fail = 0;
    for r in &refs {
        if let Err(e) = r {
            n_ref_fail += 1;
            if n_ref_fail <= 3 {
                run.acc.inconclusive.push(format!("reference run failed: {}", e));
            }
        }
    }
    let sessions = tier.pick(96usize, 3000);
    let res = run_parallel(16, sessions, |sid| {
        let mut acc = Acc::new();
        let mut rng = Rng::stream(seed, 0xC16_0000 + sid as u64);
        // "all timings": one session in eight runs under ptrace delay injection (threads held at
        // the channel operations, thread start and standard-output entry points) - what is
        // reported must not depend on how the two threads happen to be scheduled
        let mut opts = SpawnOpts::default();
        if sid % 8 == 5 && bb::ptdelay_tool(&plain).is_some() {
            opts.ptdelay = Some((*rng.pick(&[300u32, 1000]), seed.wrapping_mul(41).wrapping_add(sid as u64)));
            opts.ptset = bb::PtSet::Both;
            acc.feature("session_under_ptrace_delay_injection");
        }
        let mut s = match Sess::start(&plain, opts, false) {
            Ok(s) => s,
            Err(e) => {
                acc.inconclusive.push(format!("session start failed: {}", e));
                return acc;
            }
        };
        let n_probes = 3 + rng.below(4) as usize;
        for pi in 0..n_probes {
            let idx = rng.below(prs.len() as u64) as usize;
            let probe = &prs[idx];
            let reference = match &refs[idx] {
                Ok(r) => r,
                Err(_) => continue,
            };
            let plen = match rng.below(4) {
                0 => 1 + rng.below(3),
                1 => 3 + rng.below(10),
                _ => 8 + rng.below(52),
            } as usize;
            if !prefix_traffic(&mut s, &mut rng, &roots, probe, plen, &mut acc) {
                acc.inconclusive.push("prefix traffic was not answered (reported by C03/C08 if it is a defect)".into());
                return acc;
            }
            let script = |s: &Sess| -> Vec<String> { s.eng.transcript.iter().filter(|e| e.dir == Dir::Sent).map(|e| e.line.clone()).collect() };
            // zero-slice probe, twice
            let mut answers = Vec::new();
            for _rep in 0..2 {
                s.position(&probe.hist);
                let mut g = s.go("", WATCHDOG);
                acc.evaluations += 1;
                let bm = match &g.bestmove {
                    Some(b) => b.0.clone(),
                    None => {
                        acc.inconclusive.push("probe not answered".into());
                        return acc;
                    }
                };
                s.settle(&mut g, WATCHDOG);
                answers.push(bm);
            }
            acc.distinct.insert(hash64(&format!("{}|{}|{}", probe.hist.command(), sid, pi)));
            acc.feature("zero_slice_probe");
            if answers[0] != reference.zero_answer || answers[1] != reference.zero_answer {
                acc.violation(
                    format!("C16|zero|{}", probe.hist.command()),
                    format!("zero-allowance probe '{}' answered {:?} after {} commands of earlier traffic, a fresh engine answers {}", truncate(&probe.hist.command(), 160), answers, s.eng.transcript.iter().filter(|e| e.dir == Dir::Sent).count(), reference.zero_answer),
                    json!({"kind": "session", "property": "C16", "script": script(&s), "probe": probe.hist.command(), "fresh_answer": reference.zero_answer}),
                );
            }
            if probe.timed {
                s.position(&probe.hist);
                let ms = 5 + rng.below(36) as u32;
                let mut g = s.go(&timed_args(probe.hist.end.stm, ms), WATCHDOG);
                acc.evaluations += 1;
                if g.bestmove.is_none() {
                    acc.inconclusive.push("timed probe not answered".into());
                    return acc;
                }
                s.settle(&mut g, WATCHDOG);
                let seq = info_seq(&g.info_lines);
                acc.feature("timed_probe");
                acc.count("timed_probe_info_lines", seq.len() as u64);
                if !seq.is_empty() {
                    acc.feature("timed_probe_with_lines");
                }
                if sid < 2 && pi == 0 {
                    acc.sample(json!({"probe": truncate(&probe.hist.command(), 140), "slice_ms": ms, "lines_in_session": seq.len(), "lines_fresh_150ms": reference.long_seq.len(), "last": seq.last()}));
                }
                if !prefix_compatible(&seq, &reference.long_seq) {
                    let at = seq.iter().zip(reference.long_seq.iter()).position(|(a, b)| a != b).unwrap_or(0);
                    acc.violation(
                        format!("C16|timed|{}", probe.hist.command()),
                        format!("timed probe '{}' ({} ms) after earlier traffic reports {:?} at line {} where a fresh engine reports {:?}", truncate(&probe.hist.command(), 160), ms, seq.get(at), at + 1, reference.long_seq.get(at)),
                        json!({"kind": "session", "property": "C16", "script": script(&s), "probe": probe.hist.command(), "session_lines": seq, "fresh_lines": reference.long_seq}),
                    );
                }
            }
        }
        acc
    });
    for a in res {
        run.acc.merge(a, &[]);
    }
    // the same question with "all timings": prefix traffic and probe are written without waiting
    // for any reply, so every command arrives while the engine is still busy with an earlier one
    {
        use super::pipe::{self, Chunking, End};
        let n = tier.pick(48usize, 600);
        let res = run_parallel(16, n, |i| {
            let mut acc = Acc::new();
            let mut rng = Rng::stream(seed, 0xC16_9000 + i as u64);
            let idx = rng.below(prs.len() as u64) as usize;
            let probe = &prs[idx];
            let reference = match &refs[idx] {
                Ok(r) => r,
                Err(_) => return acc,
            };
            let steps = 1 + rng.below(6) as usize;
            let mut lines = pipe::make_script(&mut rng, &roots, steps, 3, 25);
            // the probed game itself and related games earlier in the session, option lines
            if rng.chance(1, 2) {
                let at = rng.below(lines.len() as u64 + 1) as usize;
                lines.insert(at, probe.hist.command());
            }
            for r in probe.related.iter().take(2) {
                if rng.chance(1, 2) {
                    lines.insert(0, "go".into());
                    lines.insert(0, r.command());
                }
            }
            if rng.chance(1, 3) {
                lines.insert(0, "setoption name DebugLogLevel value Info".into());
            }
            // the probe, twice
            for _ in 0..2 {
                lines.push(probe.hist.command());
                lines.push("go".into());
            }
            let chunking = match rng.below(3) { 0 => Chunking::PerLine, 1 => Chunking::Pieces(1 + rng.below(50) as usize), _ => Chunking::OneWrite };
            let obs = match pipe::run_pipelined(&plain, &SpawnOpts::default(), &lines, End::Eof, chunking, seed ^ i as u64) {
                Ok(o) => o,
                Err(e) => {
                    acc.inconclusive.push(format!("pipelined probe session failed to start: {}", e));
                    return acc;
                }
            };
            let j = pipe::judge(&lines, &obs);
            if !obs.complete || j.answers.len() < 2 {
                acc.inconclusive.push("pipelined prefix traffic was not answered completely (reported by C03/C08 if it is a defect)".into());
                return acc;
            }
            acc.evaluations += 2;
            acc.distinct.insert(hash64(&format!("pipelined|{}|{}", probe.hist.command(), i)));
            acc.feature("pipelined_zero_slice_probe");
            let got = &j.answers[j.answers.len() - 2..];
            if got[0] != reference.zero_answer || got[1] != reference.zero_answer {
                acc.violation(
                    format!("C16|pipelined|{}", probe.hist.command()),
                    format!("zero-allowance probe '{}' written without waiting after {} earlier commands answered {:?}, a fresh engine answers {}", truncate(&probe.hist.command(), 160), lines.len() - 4, got, reference.zero_answer),
                    pipe::case_json("C16", &lines, End::Eof, chunking, Some(&obs)),
                );
            }
            acc
        });
        for a in res {
            run.acc.merge(a, &[]);
        }
    }
    // long sessions: a timed search of the probed game, then a long run of other searches
    // (N = 253..258, 509..514 and, in the thorough tier, around 1024, 4096 and 65536 zero-allowance
    // go commands on other positions, written in one piece), then the probe. State that is kept
    // per process and told apart by a small counter, a generation number or a bounded age only
    // shows when the number of searches in between hits the counter's period.
    {
        let mut counts: Vec<usize> = (253..=258).chain(509..=514).collect();
        if tier == Tier::Thorough {
            counts.extend((1021..=1026).chain(4093..=4098).chain(65533..=65538));
        }
        let timed: Vec<usize> = (0..prs.len()).filter(|i| prs[*i].timed && matches!(&refs[*i], Ok(r) if r.long_seq.len() >= 2)).collect();
        if !timed.is_empty() {
            // around the periods 2^8 and 2^9 the probe is, in addition, a repetition-sensitive one
            // (lost side to move, one shuffle cycle behind it: positions with count one that are
            // two plies away - a record that comes back to life or is counted twice turns them into
            // draws), three different ones per count
            let mut plan: Vec<(usize, Option<usize>)> = counts.iter().map(|n| (*n, None)).collect();
            let rep: Vec<usize> = timed.iter().copied().filter(|i| i % 5 == 0).collect();
            if !rep.is_empty() {
                for n in [254usize, 255, 256, 510, 511, 512] {
                    for k in 0..3 {
                        plan.push((n, Some(rep[(k * 7 + n) % rep.len()])));
                    }
                }
            }
            let res = run_parallel(16, plan.len(), |ci| {
                let mut acc = Acc::new();
                let (n, forced) = plan[ci];
                let mut rng = Rng::stream(seed, 0xC16_A000 + ci as u64);
                let idx = forced.unwrap_or_else(|| timed[rng.below(timed.len() as u64) as usize]);
                if forced.is_some() {
                    acc.feature("long_session_with_a_repetition_sensitive_probe_at_a_counter_period");
                }
                let probe = &prs[idx];
                let reference = match &refs[idx] {
                    Ok(r) => r,
                    Err(_) => return acc,
                };
                let mut s = match Sess::start(&plain, SpawnOpts::default(), false) {
                    Ok(s) => s,
                    Err(e) => {
                        acc.inconclusive.push(format!("session start failed: {}", e));
                        return acc;
                    }
                };
                // the earlier search of the probed game (a generous slice, so that whatever it
                // leaves behind covers the tree the probe will walk)
                s.position(&probe.hist);
                let mut g = s.go(&timed_args(probe.hist.end.stm, 80), WATCHDOG);
                if g.bestmove.is_none() {
                    acc.inconclusive.push("long session: first search not answered".into());
                    return acc;
                }
                s.settle(&mut g, WATCHDOG);
                if rng.chance(1, 2) {
                    s.eng.send("ucinewgame");
                }
                // n searches of other positions, written in pieces of at most 200 commands
                let fill: Vec<String> = (0..4).map(|_| roots[rng.below(roots.len() as u64) as usize].clone()).filter(|h| has_legal_move(&h.end) && h.moves.len() <= 40).map(|h| h.command()).collect();
                let fill = if fill.is_empty() { vec!["position startpos moves d2d4".to_string()] } else { fill };
                let mark = s.eng.transcript.len();
                let mut left = n;
                while left > 0 {
                    let k = left.min(200);
                    let mut text = String::new();
                    for j in 0..k {
                        text.push_str(&fill[(left + j) % fill.len()]);
                        text.push_str("\ngo\n");
                    }
                    s.eng.send_raw(text.as_bytes());
                    left -= k;
                    if !s.isready(Duration::from_secs(30)) {
                        acc.inconclusive.push("long session: filler searches not answered within 30 s".into());
                        return acc;
                    }
                }
                // the last filler's detached search thread may still print a line: wait until it
                // is gone and use isready as the boundary, so that nothing of it lands in the probe
                let t_end = std::time::Instant::now() + Duration::from_secs(3);
                while s.eng.thread_count() > 1 && std::time::Instant::now() < t_end {
                    s.eng.drain(Duration::from_micros(300));
                }
                if s.eng.thread_count() > 1 {
                    // a filler's search thread is still alive: its late lines could land in the probe
                    acc.count("long_session_given_up_search_thread_still_alive", 1);
                    return acc;
                }
                if !s.isready(WATCHDOG) {
                    acc.inconclusive.push("long session: no readyok before the probe".into());
                    return acc;
                }
                let answered = s.eng.transcript[mark..].iter().filter(|e| e.dir == Dir::Out && e.line.starts_with("bestmove")).count();
                if answered != n {
                    acc.inconclusive.push(format!("long session: {} answers for {} filler searches", answered, n));
                    return acc;
                }
                // the probe: timed, then zero allowance
                s.position(&probe.hist);
                let ms = 10 + rng.below(31) as u32;
                let mut g = s.go(&timed_args(probe.hist.end.stm, ms), WATCHDOG);
                if g.bestmove.is_none() {
                    acc.inconclusive.push("long session: probe not answered".into());
                    return acc;
                }
                s.settle(&mut g, WATCHDOG);
                acc.evaluations += 1;
                acc.count("long_session_filler_searches", n as u64);
                acc.feature("timed_probe_after_hundreds_of_searches");
                if n > 60000 {
                    acc.feature("timed_probe_after_65536_searches");
                }
                acc.distinct.insert(hash64(&format!("long|{}|{}", probe.hist.command(), n)));
                let seq = info_seq(&g.info_lines);
                let script: Vec<String> = if n <= 1100 { s.eng.transcript.iter().filter(|e| e.dir == Dir::Sent).flat_map(|e| e.line.split('\n').map(|x| x.to_string()).collect::<Vec<_>>()).filter(|l| !l.is_empty()).collect() } else { vec![] };
                if !prefix_compatible(&seq, &reference.long_seq) {
                    let at = seq.iter().zip(reference.long_seq.iter()).position(|(a, b)| a != b).unwrap_or(0);
                    acc.violation(
                        format!("C16|timed-long|{}|{}", n, probe.hist.command()),
                        format!("timed probe '{}' ({} ms), searched once before and then again after {} searches of other positions in the same session, reports {:?} at line {} where a fresh engine reports {:?}", truncate(&probe.hist.command(), 160), ms, n, seq.get(at), at + 1, reference.long_seq.get(at)),
                        json!({"kind": "session", "property": "C16", "script": script, "long_session": {"first": [probe.hist.command(), format!("go {}", timed_args(probe.hist.end.stm, 80))], "filler_positions": fill, "filler_searches": n, "probe_ms": ms}, "probe": probe.hist.command(), "session_lines": seq, "fresh_lines": reference.long_seq}),
                    );
                }
                s.position(&probe.hist);
                let mut g = s.go("", WATCHDOG);
                if let Some((bm, _)) = g.bestmove.clone() {
                    s.settle(&mut g, WATCHDOG);
                    acc.evaluations += 1;
                    if bm != reference.zero_answer {
                        acc.violation(
                            format!("C16|zero-long|{}|{}", n, probe.hist.command()),
                            format!("zero-allowance probe '{}' after {} searches in the same session answered {}, a fresh engine answers {}", truncate(&probe.hist.command(), 160), n + 2, bm, reference.zero_answer),
                            json!({"kind": "session", "property": "C16", "long_session": {"filler_positions": fill, "filler_searches": n}, "probe": probe.hist.command(), "fresh_answer": reference.zero_answer}),
                        );
                    }
                }
                acc
            });
            for a in res {
                run.acc.merge(a, &[]);
            }
        }
    }
    run.set("probes", json!(prs.len()));
    run.floor_distinct = 100;
    run.finish()
}
