//! Black-box / two-thread parts of monitors whose main body is in-process:
//! C09 (measured delay), C07 (schedules clause), C18 (real transcripts), C10 (real handler).

use super::c03::{run_parallel, session_roots, FAILPOINT_SETS};
use super::c08::{solo_confirm, SlowCase, OVERHEAD_MS};
use super::c10::{compare_table, rich_history};
use super::rules_driver::truncate;
use super::searchlib::*;
use crate::bb::{self, Dir, SpawnOpts};
use crate::ev::{Acc, Run, Tier};
use crate::glue::*;
use crate::oracle::*;
use crate::rng::{hash64, Rng};
use crate::sess::*;
use crate::zobrist::ZobristHasher;
use serde_json::json;
use std::collections::HashMap;
use std::time::Duration;

fn slice_args(stm: Color, ms: u32, rng: &mut Rng) -> String {
    let clock = 100 + (ms as f64 / 0.8).round() as u64;
    let (mine, theirs) = if stm == Color::White { ("wtime", "btime") } else { ("btime", "wtime") };
    match rng.below(3) {
        0 => format!("{} {} movestogo 1", mine, clock),
        1 => format!("{} 1000000000 {} {} movestogo 1", theirs, mine, clock),
        _ => format!("{} {} {} 5 movestogo 1 {}inc 100000", mine, clock, theirs, if stm == Color::White { "b" } else { "w" }),
    }
}

// ------------------------------------------------------------------------------------------------
// C09: measured go -> bestmove delay against the plan
// ------------------------------------------------------------------------------------------------

pub fn c09_timed(run: &mut Run) {
    let tier = run.tier;
    let seed = run.seed;
    let plain = match bb::build_plain() {
        Ok(b) => b,
        Err(e) => {
            run.acc.inconclusive.push(e);
            return;
        }
    };
    let mut roots = session_roots(seed ^ 9, 60);
    {
        let mut rng = Rng::stream(seed, 0x57_09);
        for _ in 0..8 {
            let p = crate::workload::queen_storm_position(&mut rng);
            roots.push(History { start: p.clone(), moves: vec![], end: p });
        }
    }
    // roots on which the search is over long before the slice (a mate in one: all iterations done
    // within a millisecond or two, the search thread exits): the answer still comes at the plan
    for p in burst_roots(seed ^ 9, 8) {
        roots.push(History { start: p.clone(), moves: vec![], end: p });
    }
    let sessions = tier.pick(16usize, 200);
    let per_session = tier.pick(12usize, 25);
    let res = run_parallel(8, sessions, |sid| {
        let mut acc = Acc::new();
        let mut slow: Vec<SlowCase> = Vec::new();
        let mut rng = Rng::stream(seed, 0xC09_0000 + sid as u64);
        let mut s = match Sess::start(&plain, SpawnOpts::default(), false) {
            Ok(s) => s,
            Err(e) => {
                acc.inconclusive.push(format!("session start failed: {}", e));
                return (acc, slow);
            }
        };
        for i in 0..per_session {
            let h = &roots[rng.below(roots.len() as u64) as usize];
            s.position(h);
            let ms = match rng.below(20) {
                0..=4 => 0,
                5..=9 => 1 + rng.below(10) as u32,
                10..=14 => 10 + rng.below(90) as u32,
                // one go in twenty gets a long slice (0.3-1.8 s)
                19 => 300 + rng.below(1500) as u32,
                _ => 100 + rng.below(150) as u32,
            };
            let args = if ms == 0 { String::new() } else { slice_args(h.end.stm, ms, &mut rng) };
            let mut g = s.go(&args, WATCHDOG);
            acc.evaluations += 1;
            if ms >= 300 {
                acc.feature("timed_go_with_a_long_slice");
            }
            let lat = match g.latency_ms() {
                Some(l) => l,
                None => {
                    acc.inconclusive.push(format!("timed go not answered: {} / {}", h.command(), g.args));
                    return (acc, slow);
                }
            };
            s.settle(&mut g, WATCHDOG);
            if g.plan_ms > 0 {
                acc.distinct.insert(hash64(&format!("timed|{}|{}|{}|{}", h.command(), g.args, sid, i)));
                acc.feature("timed_go_measured");
            }
            acc.max("max_overhead_ms_x10", ((lat - g.plan_ms as f64).max(0.0) * 10.0) as u64);
            if sid == 0 && i < 2 {
                acc.sample(json!({"go": g.args, "plan_ms": g.plan_ms as u64, "measured_ms": (lat * 100.0).round() / 100.0}));
            }
            if lat < g.plan_ms as f64 - 1.0 {
                acc.violation(
                    format!("C09|early|{}|{}", h.end.to_fen(), g.args),
                    format!("'{}' on {} was answered after {:.2} ms although the plan is {} ms", g.args, h.end.to_fen(), lat, g.plan_ms),
                    json!({"kind": "session", "property": "C09", "script": [h.command(), g.args]}),
                );
            }
            if lat > g.plan_ms as f64 + OVERHEAD_MS {
                slow.push(SlowCase { position_cmd: h.command(), go_args: g.args.clone(), plan_ms: g.plan_ms, latency_ms: lat, mode: "plain_par8".into() });
            }
        }
        (acc, slow)
    });
    let mut slow_all = Vec::new();
    for (a, sl) in res {
        run.acc.merge(a, &["max_overhead_ms_x10"]);
        slow_all.extend(sl);
    }
    let mut outliers = Vec::new();
    for c in slow_all.iter().take(10) {
        let lats = solo_confirm(&plain, c);
        outliers.push(json!({"go": c.go_args, "plan_ms": c.plan_ms as u64, "latency_ms": c.latency_ms, "solo_latencies_ms": lats}));
        if !lats.is_empty() && lats.iter().all(|l| *l > c.plan_ms as f64 + OVERHEAD_MS) {
            run.acc.violation(
                format!("C09|late|{}|{}", c.position_cmd, c.go_args),
                format!("'{}' after '{}' answered {:.0} ms after the go (plan {} ms); three solo re-runs: {:?} ms", c.go_args, truncate(&c.position_cmd, 120), c.latency_ms, c.plan_ms, lats),
                json!({"kind": "session", "property": "C09", "script": [c.position_cmd, c.go_args]}),
            );
        }
    }
    run.set("slow_outliers", json!(outliers));
    run.set("slow_outliers_total", json!(slow_all.len()));
}

// ------------------------------------------------------------------------------------------------
// C07: schedules clause - nothing panics when the deadline falls between the search thread's
// clock test and its send (hooked binary, failpoints stretch that window)
// ------------------------------------------------------------------------------------------------

pub fn c07_schedules(run: &mut Run) {
    let tier = run.tier;
    let seed = run.seed;
    let hooked = match bb::build_hooked() {
        Ok(b) => b,
        Err(e) => {
            run.acc.inconclusive.push(e);
            return;
        }
    };
    let roots = session_roots(seed ^ 7, 60);
    let sessions = tier.pick(24usize, 240);
    let per_session = tier.pick(12usize, 25);
    let res = run_parallel(16, sessions, |sid| {
        let mut acc = Acc::new();
        let mut rng = Rng::stream(seed, 0xC07_0000 + sid as u64);
        let fp = ["search_before_send=4000", "search_before_send=2000,io_loop_top=1500", "search_before_send=6000,search_root_move=300", FAILPOINT_SETS[5]][sid % 4];
        let mut opts = SpawnOpts::default();
        opts.env.push(("WALLEYE_VERIF_FP".into(), format!("{};seed={};prob=80", fp, seed.wrapping_add(sid as u64))));
        let mut s = match Sess::start(&hooked, opts, true) {
            Ok(s) => s,
            Err(e) => {
                acc.inconclusive.push(format!("session start failed: {}", e));
                return acc;
            }
        };
        for _ in 0..per_session {
            let h = &roots[rng.below(roots.len() as u64) as usize];
            s.position(h);
            let ms = 2 + rng.below(30) as u32;
            let mut g = s.go(&slice_args(h.end.stm, ms, &mut rng), WATCHDOG);
            if g.bestmove.is_none() {
                acc.inconclusive.push("schedules: go not answered".into());
                break;
            }
            s.settle(&mut g, WATCHDOG);
            // give a delayed search thread time to reach its send after the receiver is gone
            s.eng.drain(Duration::from_millis(8));
        }
        s.eng.send("quit");
        let _ = s.eng.wait_exit(Duration::from_secs(3));
        let recs = s.read_log();
        let gos = analyse_log(&recs);
        for g in &gos {
            acc.evaluations += 1;
            acc.count("schedule_runs_gos", 1);
            // a send logged after the poll loop was left = the window in which the receiver may be gone
            let late_send = match g.loop_exit {
                Some(t) => g.sends.iter().any(|s| s.0 > t),
                None => false,
            };
            if late_send {
                acc.feature("send_after_deadline_seen_by_io_thread");
                acc.distinct.insert(hash64(&format!("late|{}|{}", sid, g.signature)));
            }
            if g.search_panicked {
                acc.violation(
                    format!("C07|search-thread-panic|{}", g.root.as_ref().map(|r| r.to_fen()).unwrap_or_default()),
                    format!("the search thread panicked (root {}, slice {:?} ms, interleaving [{}]): its send found the receiver already dropped after the I/O thread saw the deadline; stderr: {}", g.root.as_ref().map(|r| r.to_fen()).unwrap_or_default(), g.slice_ms, g.signature, truncate(&s.eng.stderr_text(), 200)),
                    json!({"kind": "session", "property": "C07", "failpoints": fp, "interleaving": g.signature}),
                );
            }
        }
        if let Some(err) = s.stderr_has_panic() {
            if !gos.iter().any(|g| g.search_panicked) {
                acc.violation(format!("C07|stderr-panic|{}", sid), format!("'panicked' on stderr of the engine under delayed sends: {}", truncate(&err, 300)), json!({"kind": "session", "property": "C07", "failpoints": fp}));
            }
        }
        acc
    });
    for a in res {
        run.acc.merge(a, &[]);
    }
    // The same window on the PLAIN binary: ptdelay holds a thread at the channel operations, at
    // the drop of a channel end and at the start of the search thread (no recompilation, no hook)
    if let Ok(plain) = bb::build_plain() {
        let pt_ok = bb::ptdelay_tool(&plain).map(|t| t.2.is_some()).unwrap_or(false);
        run.set("ptrace_handoff_delay_injection_available", json!(pt_ok));
        if pt_ok {
            let sessions = tier.pick(16usize, 128);
            let hits = std::sync::atomic::AtomicU64::new(0);
            let res = run_parallel(16, sessions, |sid| {
                let mut acc = Acc::new();
                let mut rng = Rng::stream(seed, 0xC07_4000 + sid as u64);
                let mut opts = SpawnOpts::default();
                opts.ptdelay = Some((*rng.pick(&[1000u32, 3000, 6000]), seed.wrapping_add(sid as u64)));
                opts.ptset = bb::PtSet::Handoff;
                let mut s = match Sess::start(&plain, opts, false) {
                    Ok(s) => s,
                    Err(e) => {
                        acc.inconclusive.push(format!("session start failed: {}", e));
                        return acc;
                    }
                };
                for _ in 0..per_session {
                    let h = &roots[rng.below(roots.len() as u64) as usize];
                    s.position(h);
                    let ms = 2 + rng.below(30) as u32;
                    let mut g = s.go(&slice_args(h.end.stm, ms, &mut rng), WATCHDOG);
                    if g.bestmove.is_none() {
                        acc.inconclusive.push("ptdelay schedules: go not answered".into());
                        break;
                    }
                    s.settle(&mut g, WATCHDOG);
                    s.eng.drain(Duration::from_millis(8));
                    acc.evaluations += 1;
                    acc.count("ptdelay_schedule_gos", 1);
                    acc.feature("go_on_plain_binary_under_handoff_delays");
                    acc.distinct.insert(hash64(&format!("pt|{}|{}|{}", sid, h.end.to_fen(), g.args)));
                    if let Some(err) = s.stderr_has_panic() {
                        acc.violation(
                            format!("C07|ptdelay-panic|{}", truncate(&err, 60)),
                            format!("'panicked' on stderr of the unmodified binary when its threads are delayed at the channel operations ('{}' after '{}'): {}", g.args, truncate(&h.command(), 160), truncate(&err, 300)),
                            json!({"kind": "session", "property": "C07", "ptdelay": "handoff", "script": [h.command(), g.args]}),
                        );
                        break;
                    }
                }
                if let Some((h, _)) = s.eng.ptdelay_stats() {
                    hits.fetch_add(h, std::sync::atomic::Ordering::Relaxed);
                }
                acc
            });
            for a in res {
                run.acc.merge(a, &[]);
            }
            run.set("ptrace_handoff_arrivals_observed", json!(hits.load(std::sync::atomic::Ordering::Relaxed)));
        }
    }
    // Long go chains on cheap roots, plain binary, real clock: iterative deepening gets very deep
    // within an ordinary slice there; any 'panicked' on stderr is a refuter of "nothing panics".
    let plain = match bb::build_plain() {
        Ok(b) => b,
        Err(e) => {
            run.acc.inconclusive.push(e);
            return;
        }
    };
    let h = ZobristHasher::create_zobrist_hasher();
    let deep = super::search::deep_iteration_roots(seed ^ 0x77, tier.pick(48, 480), &h);
    let sessions = tier.pick(16usize, 160);
    let res = run_parallel(16, sessions, |sid| {
        let mut acc = Acc::new();
        let mut rng = Rng::stream(seed, 0xC07_8000 + sid as u64);
        let mut s = match Sess::start(&plain, SpawnOpts::default(), false) {
            Ok(s) => s,
            Err(e) => {
                acc.inconclusive.push(format!("session start failed: {}", e));
                return acc;
            }
        };
        for _ in 0..3 {
            let root = &deep[rng.below(deep.len() as u64) as usize];
            s.position(&root.hist);
            for _ in 0..(4 + rng.below(8)) {
                let cur = match &s.cur {
                    Some(c) if has_legal_move(c) => c.clone(),
                    _ => break,
                };
                let ms = 20 + rng.below(70) as u32;
                let mut g = s.go(&slice_args(cur.stm, ms, &mut rng), WATCHDOG);
                acc.evaluations += 1;
                acc.count("deep_chain_gos", 1);
                let bm = match &g.bestmove {
                    Some(b) => b.0.clone(),
                    None => {
                        acc.inconclusive.push("deep chain: go not answered".into());
                        return acc;
                    }
                };
                s.settle(&mut g, WATCHDOG);
                let maxd = g.info_lines.iter().filter_map(|l| parse_info(l, true).ok()).map(|i| i.depth).max().unwrap_or(0);
                acc.max("deep_chain_max_depth_reported", maxd);
                if maxd >= 30 {
                    acc.feature("blackbox_iteration_30_or_deeper");
                    acc.distinct.insert(hash64(&format!("deepbb|{}|{}", sid, cur.to_fen())));
                }
                if let Some(err) = s.stderr_has_panic() {
                    acc.violation(
                        format!("C07|blackbox-panic|{}", cur.to_fen()),
                        format!("'panicked' on stderr during '{}' on {} (history: '{}'): {}", g.args, cur.to_fen(), truncate(&root.hist.command(), 200), truncate(&err, 300)),
                        json!({"kind": "session", "property": "C07", "script": s.eng.transcript.iter().filter(|e| e.dir == Dir::Sent).map(|e| e.line.clone()).collect::<Vec<_>>()}),
                    );
                    return acc;
                }
                match parse_mv(&bm) {
                    Some(m) if legal_moves(&cur).contains(&m) => s.cur = Some(apply(&cur, m)),
                    _ => break,
                }
            }
        }
        acc
    });
    for a in res {
        run.acc.merge(a, &["deep_chain_max_depth_reported"]);
    }
}

// ------------------------------------------------------------------------------------------------
// C18: info lines of real transcripts
// ------------------------------------------------------------------------------------------------

pub fn check_transcript_lines(lines: &[String], root: &Pos, ctx: &str, acc: &mut Acc) {
    let legal = legal_moves(root);
    let mut last_depth = 0u64;
    let mut last_key: Option<(u64, i64)> = None;
    for l in lines {
        acc.evaluations += 1;
        let case = json!({"kind": "transcript_line", "property": "C18", "context": ctx, "root_fen": root.to_fen(), "line": l});
        let tag = format!("{}|{}", root.to_fen(), truncate(l, 60));
        match parse_info(l, true) {
            Err(why) => acc.violation(format!("C18|form|{}", tag), format!("malformed info line {:?} ({}) on {}", l, why, root.to_fen()), case),
            Ok(info) => {
                let key = score_key(&info.score);
                if matches!(info.score, Score::Cp(x) if x.abs() >= SENTINEL as i64) || key.abs() > MATE as i64 {
                    acc.violation(format!("C18|sentinel|{}", tag), format!("{}: score outside the mate range (aborted-search sentinel leaked): {:?}", root.to_fen(), l), case.clone());
                }
                if info.depth < 1 || info.depth < last_depth {
                    acc.violation(format!("C18|depth|{}", tag), format!("{}: depth {} after depth {}: {:?}", root.to_fen(), info.depth, last_depth, l), case.clone());
                }
                if info.score == Score::Mate(0) {
                    acc.violation(format!("C18|mate0|{}", tag), format!("{}: 'mate 0': {:?}", root.to_fen(), l), case.clone());
                }
                match parse_mv(&info.pv[0]) {
                    Some(m) if legal.iter().any(|x| x.from == m.from && x.to == m.to && (m.promo.is_none() || m.promo == x.promo)) => {}
                    _ => acc.violation(format!("C18|pv|{}", tag), format!("{}: first PV move {} is not legal in the searched position: {:?}", root.to_fen(), info.pv[0], l), case.clone()),
                }
                if let Some((d, prev)) = last_key {
                    if d == info.depth && key <= prev {
                        acc.violation(format!("C18|monotone|{}", tag), format!("{}: within depth {} the score did not strictly increase ({} after {}): {:?}", root.to_fen(), d, key, prev, l), case.clone());
                    }
                }
                if matches!(info.score, Score::Mate(_)) {
                    acc.feature("mate_line_blackbox");
                }
                last_depth = last_depth.max(info.depth);
                last_key = Some((info.depth, key));
            }
        }
    }
}

pub fn c18_blackbox(run: &mut Run) {
    let tier = run.tier;
    let seed = run.seed;
    let plain = match bb::build_plain() {
        Ok(b) => b,
        Err(e) => {
            run.acc.inconclusive.push(e);
            return;
        }
    };
    let mut roots = session_roots(seed ^ 18, 80);
    for fen in ["7k/8/4K3/8/8/8/8/6Q1 w - -", "6k1/5ppp/8/8/8/8/5PPP/3R2K1 w - -", "7k/5K2/8/8/8/8/8/6Q1 b - -", "8/8/8/3k4/8/3K4/3R4/8 w - -"] {
        let p = Pos::parse_fen(fen).unwrap();
        roots.push(History { start: p.clone(), moves: vec![], end: p });
    }
    // roots with a single legal reply (forced-reply shapes, sparse endings in check)
    {
        let mut rng = Rng::stream(seed, 0xC18_F0);
        let mut n = 0;
        for _ in 0..200_000 {
            if n >= 20 {
                break;
            }
            let cand = if rng.chance(1, 2) {
                super::c10::forced_reply_cycle(&mut rng).map(|(c, cyc)| {
                    let mut p = c;
                    for m in &cyc[..3] {
                        p = apply(&p, *m);
                    }
                    p
                })
            } else {
                super::c11::material_position(&mut rng, &[Kind::Queen], &[], Color::Black)
            };
            if let Some(p) = cand {
                if legal_moves(&p).len() == 1 {
                    roots.push(History { start: p.clone(), moves: vec![], end: p });
                    n += 1;
                }
            }
        }
    }
    let sessions = tier.pick(16usize, 160);
    let per_session = tier.pick(16usize, 32);
    let res = run_parallel(16, sessions, |sid| {
        let mut acc = Acc::new();
        let mut rng = Rng::stream(seed, 0xC18_0000 + sid as u64);
        let mut s = match Sess::start(&plain, SpawnOpts::default(), false) {
            Ok(s) => s,
            Err(e) => {
                acc.inconclusive.push(format!("session start failed: {}", e));
                return acc;
            }
        };
        for i in 0..per_session {
            let h = &roots[rng.below(roots.len() as u64) as usize];
            s.position(h);
            let ms = 3 + rng.below(60) as u32;
            let mut g = s.go(&slice_args(h.end.stm, ms, &mut rng), WATCHDOG);
            if g.bestmove.is_none() {
                acc.inconclusive.push("blackbox go not answered".into());
                break;
            }
            s.settle(&mut g, WATCHDOG);
            if !g.info_lines.is_empty() {
                acc.distinct.insert(hash64(&format!("bb|{}|{}|{}", h.command(), sid, i)));
                acc.feature("blackbox_go_with_lines");
            }
            if sid == 0 && i == 0 {
                acc.sample(json!({"blackbox_go": g.args, "root": h.end.to_fen(), "lines": g.info_lines.iter().take(3).collect::<Vec<_>>()}));
            }
            check_transcript_lines(&g.info_lines, &h.end, &g.args, &mut acc);
        }
        acc
    });
    for a in res {
        run.acc.merge(a, &[]);
    }
    // long searches: slices of 1.2-3 s on middle-game roots with many pieces. Only there does one
    // iteration last hundreds of milliseconds and raise the root's best score several times, so
    // only there can anything that depends on the time between two lines of one depth (rate
    // limiting, batching, a line held back and printed late) put them out of order.
    let mids: Vec<History> = vec![History { start: Pos::start(), moves: vec![], end: Pos::start() }];
    if !mids.is_empty() {
        let sessions = tier.pick(16usize, 64);
        let per_session = tier.pick(4usize, 12);
        let res = run_parallel(16, sessions, |sid| {
            let mut acc = Acc::new();
            let mut rng = Rng::stream(seed, 0xC18_B000 + sid as u64);
            let mut s = match Sess::start(&plain, SpawnOpts::default(), false) {
                Ok(s) => s,
                Err(e) => {
                    acc.inconclusive.push(format!("session start failed: {}", e));
                    return acc;
                }
            };
            for i in 0..per_session {
                // a balanced middle-game root: a few random opening plies, then the engine plays
                // both sides for 10-26 plies at 6-12 ms a move (go after go on its own board)
                let mut h = mids[0].clone();
                for _ in 0..(2 + rng.below(5)) {
                    let ms = legal_moves(&h.end);
                    if ms.is_empty() {
                        break;
                    }
                    let m = *rng.pick(&ms);
                    h.moves.push(m);
                    h.end = apply(&h.end, m);
                }
                s.position(&h);
                let mut ok = true;
                for _ in 0..(10 + rng.below(17)) {
                    if legal_moves(&h.end).is_empty() {
                        break;
                    }
                    let mut g = s.go(&slice_args(h.end.stm, 6 + rng.below(7) as u32, &mut rng), WATCHDOG);
                    if g.bestmove.is_some() {
                        // the detached search thread may print a line just after bestmove: wait
                        // until it is gone, so that nothing of this go lands in the next one
                        // (without this the first version raised a false alarm in `vp check`:
                        // a depth-1 line of the previous self-play move inside the long search)
                        s.settle(&mut g, WATCHDOG);
                    }
                    match g.bestmove.as_ref().and_then(|(t, _)| parse_mv(t)) {
                        Some(m) if legal_moves(&h.end).contains(&m) => {
                            h.moves.push(m);
                            h.end = apply(&h.end, m);
                        }
                        _ => {
                            ok = false;
                            break;
                        }
                    }
                }
                // one session in four starts with a sparse ending instead (king and pawn(s) or a
                // rook against the bare king): only there does the search get deep enough within
                // seconds for principal variations of 25-30 moves (line-length limits, PV capacities)
                let sparse = sid % 4 == 3 && i == 0;
                if sparse {
                    let fen = *rng.pick(&["8/8/8/4k3/8/8/4P3/4K3 w - -", "8/4p3/8/8/4K3/8/8/4k3 b - -", "8/8/8/3k4/8/3K4/3P4/8 w - -", "8/8/4k3/8/8/2P1K3/8/8 w - -", "8/p7/8/8/8/8/7P/K6k w - -", "8/8/8/3k4/8/8/P6P/4K3 w - -"]);
                    let p = Pos::parse_fen(fen).unwrap();
                    h = History { start: p.clone(), moves: vec![], end: p };
                    acc.feature("long_search_on_a_sparse_ending");
                }
                if !sparse && (!ok || legal_moves(&h.end).len() < 2) {
                    continue;
                }
                if !s.isready(WATCHDOG) {
                    break;
                }
                let h = &h;
                s.position(h);
                let ms = if sparse { 5200 + rng.below(800) as u32 } else { 1200 + rng.below(1800) as u32 };
                let mut g = s.go(&slice_args(h.end.stm, ms, &mut rng), WATCHDOG);
                if g.bestmove.is_none() {
                    acc.inconclusive.push("long blackbox go not answered".into());
                    break;
                }
                s.settle(&mut g, WATCHDOG);
                acc.count("long_search_gos", 1);
                // how many lines the busiest depth printed, and how long that depth took
                let mut per_depth: HashMap<u64, (u64, u64, u64)> = HashMap::new();
                for l in &g.info_lines {
                    if let Ok(inf) = parse_info(l, true) {
                        acc.max("max_pv_moves_on_a_line", inf.pv.len() as u64);
                        acc.max("max_depth_on_a_line", inf.depth);
                        let e = per_depth.entry(inf.depth).or_insert((0, u64::MAX, 0));
                        e.0 += 1;
                        e.1 = e.1.min(inf.time.unwrap_or(0));
                        e.2 = e.2.max(inf.time.unwrap_or(0));
                    }
                }
                if per_depth.values().any(|(n, t0, t1)| *n >= 3 && t1 - t0 >= 100) {
                    acc.feature("depth_with_three_or_more_lines_spread_over_100ms");
                    acc.distinct.insert(hash64(&format!("bblong|{}|{}|{}", h.command(), sid, i)));
                }
                check_transcript_lines(&g.info_lines, &h.end, &g.args, &mut acc);
            }
            acc
        });
        for a in res {
            run.acc.merge(a, &["max_pv_moves_on_a_line", "max_depth_on_a_line"]);
        }
    }
}

// ------------------------------------------------------------------------------------------------
// C10: the real handler (clear() included) and the real search on the binary
// ------------------------------------------------------------------------------------------------

pub fn c10_blackbox(run: &mut Run, lost: &[Pos]) {
    let tier = run.tier;
    let seed = run.seed;
    let plain = match bb::build_plain() {
        Ok(a) => a,
        Err(e) => {
            run.acc.inconclusive.push(e);
            return;
        }
    };
    // part a on the hooked binary: several position commands per session, each record must
    // describe that command alone
    position_sessions(run, "C10");
    c10_blackbox_rest(run, lost, &plain, tier, seed);
}

/// Sessions of several `position` commands on the hooked binary (the real command loop, `clear()`
/// included); the `position_loaded` record of each command is compared with the oracle's view of
/// that command alone. `prop` = "C10": the repetition record; "C04": the board fields and the key.
/// Follow-up commands are related to the previous one the way GUI traffic is: the same command
/// again, the game continued by a few moves, moves taken back (a proper prefix, down to the bare
/// start), the last moves replaced by others, or another game from the same start.
pub fn position_sessions(run: &mut Run, prop: &'static str) {
    let tier = run.tier;
    let seed = run.seed;
    let hooked = match bb::build_hooked() {
        Ok(a) => a,
        Err(e) => {
            run.acc.inconclusive.push(e);
            return;
        }
    };
    let h = ZobristHasher::create_zobrist_hasher();
    let starts = crate::workload::start_positions(seed, 40).unwrap_or_default();
    let sessions = tier.pick(48usize, 200);
    let res = run_parallel(16, sessions, |sid| {
        let mut acc = Acc::new();
        let mut rng = Rng::stream(seed, 0xC10_0000 + sid as u64);
        let mut s = match Sess::start(&hooked, SpawnOpts::default(), true) {
            Ok(s) => s,
            Err(e) => {
                acc.inconclusive.push(format!("session start failed: {}", e));
                return acc;
            }
        };
        let n = 2 + rng.below(9) as usize;
        let mut hists = Vec::new();
        for i in 0..n {
            let start = if rng.chance(1, 2) { Pos::start() } else { starts[rng.below(starts.len() as u64) as usize].clone() };
            // related games make a missing clear() visible: same start, overlapping positions
            let hist = if i > 0 && rng.chance(1, 2) {
                let prev: &History = &hists[i - 1];
                match rng.below(7) {
                    // the same command again
                    0 => prev.clone(),
                    // moves taken back: a proper prefix of the previous list, down to no moves at all
                    4 | 5 if !prev.moves.is_empty() => {
                        let keep = if rng.chance(1, 4) { 0 } else if rng.chance(1, 2) { prev.moves.len() - 1 } else { rng.below(prev.moves.len() as u64) as usize };
                        let mut h = History { start: prev.start.clone(), moves: vec![], end: prev.start.clone() };
                        for m in prev.moves.iter().take(keep) {
                            h.moves.push(*m);
                            h.end = apply(&h.end, *m);
                        }
                        h
                    }
                    // the last one or two moves replaced by other moves (same length or longer)
                    6 if !prev.moves.is_empty() => {
                        let keep = prev.moves.len() - (1 + rng.below(2) as usize).min(prev.moves.len());
                        let mut h = History { start: prev.start.clone(), moves: vec![], end: prev.start.clone() };
                        for m in prev.moves.iter().take(keep) {
                            h.moves.push(*m);
                            h.end = apply(&h.end, *m);
                        }
                        for _ in 0..(1 + rng.below(3)) {
                            let ms = legal_moves(&h.end);
                            if ms.is_empty() {
                                break;
                            }
                            let m = crate::workload::choose_move(&mut rng, &h.end, &ms, crate::workload::Policy::Uniform);
                            h.moves.push(m);
                            h.end = apply(&h.end, m);
                        }
                        h
                    }
                    // the game goes on: the GUI sends the whole move list again with a few more moves
                    1 | 2 => {
                        let mut h = prev.clone();
                        for _ in 0..(1 + rng.below(3)) {
                            let ms = legal_moves(&h.end);
                            if ms.is_empty() {
                                break;
                            }
                            let m = crate::workload::choose_move(&mut rng, &h.end, &ms, crate::workload::Policy::Shuffle);
                            h.moves.push(m);
                            h.end = apply(&h.end, m);
                        }
                        h
                    }
                    _ => rich_history(&prev.start, &mut rng, 200),
                }
            } else if rng.chance(1, 4) {
                // a game that has only just begun (no move, one move, two moves)
                let mut h = History { start: start.clone(), moves: vec![], end: start.clone() };
                for _ in 0..rng.below(3) {
                    let ms = legal_moves(&h.end);
                    if ms.is_empty() {
                        break;
                    }
                    let m = crate::workload::choose_move(&mut rng, &h.end, &ms, crate::workload::Policy::Shuffle);
                    h.moves.push(m);
                    h.end = apply(&h.end, m);
                }
                h
            } else {
                rich_history(&start, &mut rng, 300)
            };
            s.position(&hist);
            if rng.chance(1, 3) && has_legal_move(&hist.end) {
                let mut g = s.go("", WATCHDOG);
                if g.bestmove.is_none() {
                    break;
                }
                s.settle(&mut g, WATCHDOG);
            }
            if rng.chance(1, 4) {
                s.eng.send("ucinewgame");
            }
            hists.push(hist);
        }
        if !s.isready(WATCHDOG) {
            acc.inconclusive.push("hooked session for the repetition record did not answer isready".into());
            return acc;
        }
        s.eng.send("quit");
        let _ = s.eng.wait_exit(Duration::from_secs(3));
        let recs: Vec<LogRec> = s.read_log().into_iter().filter(|r| r.kind == "position_loaded").collect();
        if recs.len() != hists.len() {
            acc.inconclusive.push(format!("{} position_loaded records for {} position commands", recs.len(), hists.len()));
            return acc;
        }
        for (i, (rec, hist)) in recs.iter().zip(hists.iter()).enumerate() {
            acc.evaluations += 1;
            let table = raw_table(&rec.detail);
            if i > 0 {
                acc.distinct.insert(hash64(&format!("sess|{}|{}", sid, i)));
                acc.feature("second_or_later_position_in_session");
            }
            if i > 0 {
                let prev = &hists[i - 1];
                if prev.start == hist.start && hist.moves.len() < prev.moves.len() && prev.moves[..hist.moves.len()] == hist.moves[..] {
                    acc.feature("position_command_takes_moves_back");
                } else if prev.start == hist.start && hist.moves.len() > prev.moves.len() && hist.moves[..prev.moves.len()] == prev.moves[..] {
                    acc.feature("position_command_continues_the_previous_one");
                } else if prev.start == hist.start && prev.moves == hist.moves {
                    acc.feature("position_command_repeated");
                }
            }
            if prop == "C04" {
                match raw_board(&rec.detail) {
                    Some((f, key)) => {
                        let want = fields_of_pos(&hist.end);
                        let want_key = zobrist_from_scratch(&want, &h);
                        if f != want || key != want_key {
                            acc.violation(
                                format!("C04|session-board|{}", hash64(&hist.command())),
                                format!("position command #{} of a session ('{}'): the engine does not hold the position the rules give ({}): {}", i + 1, truncate(&hist.command(), 160), hist.end.to_fen(),
                                    if f != want { format!("board fields differ: engine {:?}", truncate(&format!("{:?}", f), 300)) } else { format!("key {} instead of {}", key, want_key) }),
                                json!({"kind": "session", "property": "C04", "script": hists.iter().take(i + 1).map(|x| x.command()).collect::<Vec<_>>()}),
                            );
                        }
                    }
                    None => acc.inconclusive.push("position_loaded record without board fields".into()),
                }
                continue;
            }
            if let Some(diff) = compare_table(hist, &table, &h) {
                acc.violation(
                    format!("C10|session-record|{}", hash64(&hist.command())),
                    format!("position command #{} of a session ('{}'): the repetition record is wrong: {}", i + 1, truncate(&hist.command(), 160), diff),
                    json!({"kind": "session", "property": "C10", "script": hists.iter().take(i + 1).map(|x| x.command()).collect::<Vec<_>>()}),
                );
            }
            // the board the handler left must be the game's final position (C04 through the real loop)
            if let Some((f, key)) = raw_board(&rec.detail) {
                let want = fields_of_pos(&hist.end);
                if f != want || key != zobrist_from_scratch(&want, &h) {
                    acc.count("position_loaded_board_mismatch_handed_to_C04", 1);
                }
            }
        }
        acc
    });
    for a in res {
        run.acc.merge(a, &[]);
    }
}

fn c10_blackbox_rest(run: &mut Run, lost: &[Pos], plain: &std::path::PathBuf, tier: Tier, seed: u64) {
    let plain = plain.clone();
    // part b on the plain binary
    let n_b = tier.pick(48usize, 240);
    let res = run_parallel(8, n_b, |j| {
        let mut acc = Acc::new();
        let mut rng = Rng::stream(seed, 0xC10_8000 + j as u64);
        let n = [2usize, 3, 256, 4, 257, 6][j % 6];
        let base = &lost[(j / 6) % lost.len()];
        let cyc = match find_cycle(base, &mut rng) {
            Some(c) => c,
            None => return acc,
        };
        let (hist, pre) = super::c10::cycle_history(base, cyc, n, ((j / 6 + j) % 3) as u8, &mut rng);
        match pre {
            1 => acc.feature("blackbox_target_arose_from_the_last_irreversible_move"),
            2 => acc.feature("blackbox_target_one_ply_after_the_last_irreversible_move"),
            _ => {}
        }
        let mut s = match Sess::start(&plain, SpawnOpts::default(), false) {
            Ok(s) => s,
            Err(e) => {
                acc.inconclusive.push(format!("session start failed: {}", e));
                return acc;
            }
        };
        s.position(&hist);
        let mut g = s.go(&slice_args(hist.end.stm, 40, &mut rng), WATCHDOG);
        if g.bestmove.is_none() {
            acc.inconclusive.push("C10 blackbox go not answered".into());
            return acc;
        }
        s.settle(&mut g, WATCHDOG);
        acc.evaluations += 1;
        let mut last: HashMap<u64, (i64, String)> = HashMap::new();
        let mut maxd = 0;
        for l in &g.info_lines {
            if let Ok(i) = parse_info(l, true) {
                maxd = maxd.max(i.depth);
                last.insert(i.depth, (score_key(&i.score), l.clone()));
            }
        }
        acc.distinct.insert(hash64(&format!("bbdraw|{}|{}", base.to_fen(), n)));
        acc.feature(&format!("blackbox_target_occurred_{}x", n));
        for (d, (sc, l)) in &last {
            if *d < maxd && *sc < 0 {
                acc.violation(
                    format!("C10|missed-draw-bb|{}|n{}|d{}", base.to_fen(), n, d),
                    format!("real binary, {} after {} shuffle cycles: {} leads to a position that occurred {} times, yet completed depth {} ends with a negative score: {:?}", base.to_fen(), n, cyc[0], n, d, l),
                    json!({"kind": "session", "property": "C10", "script": [hist.command(), g.args]}),
                );
            }
        }
        acc
    });
    for a in res {
        run.acc.merge(a, &[]);
    }
    // part c on the plain binary: `go` after `go`. The history ends with the winning side to move
    // and a single legal reply; the engine plays it, and the second `go` (no new `position`) is
    // asked of the lost side, which can step into a position that occurred twice in the game the
    // `position` command described. The record given by that command is still the game's record.
    let n_c = tier.pick(64usize, 240);
    let res = run_parallel(8, n_c, |j| {
        let mut acc = Acc::new();
        let mut rng = Rng::stream(seed, 0xC10_C000 + j as u64);
        let mut found = None;
        for _ in 0..60_000 {
            if let Some(x) = super::c10::forced_reply_cycle(&mut rng) {
                found = Some(x);
                break;
            }
        }
        let (c, cyc) = match found {
            Some(x) => x,
            None => {
                acc.count("forced_reply_cycle_not_found", 1);
                return acc;
            }
        };
        // C D A B C D A B : every position twice, X to move with one legal reply
        let mut moves = Vec::new();
        let mut p = c.clone();
        for i in 0..7 {
            let m = cyc[i % 4];
            moves.push(m);
            p = apply(&p, m);
        }
        let hist = History { start: c.clone(), moves, end: p.clone() };
        let forced = cyc[3];
        let mut s = match Sess::start(&plain, SpawnOpts::default(), false) {
            Ok(s) => s,
            Err(e) => {
                acc.inconclusive.push(format!("session start failed: {}", e));
                return acc;
            }
        };
        s.position(&hist);
        let first_args = if rng.chance(1, 2) { String::new() } else { slice_args(p.stm, 5 + rng.below(20) as u32, &mut rng) };
        let mut g1 = s.go(&first_args, WATCHDOG);
        let ans = match &g1.bestmove {
            Some((t, _)) => t.clone(),
            None => {
                acc.inconclusive.push("C10 go-after-go: first go not answered".into());
                return acc;
            }
        };
        s.settle(&mut g1, WATCHDOG);
        if parse_mv(&ans) != Some(forced) {
            // not this property's business (C03 judges answers)
            acc.count("first_answer_not_the_only_legal_move_handed_to_C03", 1);
            return acc;
        }
        let after = apply(&p, forced);
        let mut g = s.go(&slice_args(after.stm, 40, &mut rng), WATCHDOG);
        if g.bestmove.is_none() {
            acc.inconclusive.push("C10 go-after-go: second go not answered".into());
            return acc;
        }
        s.settle(&mut g, WATCHDOG);
        acc.evaluations += 1;
        acc.distinct.insert(hash64(&format!("gogo|{}", hist.command())));
        acc.feature("go_after_go_target_occurred_2x");
        if j == 0 {
            acc.sample(json!({"go_after_go": {"position": hist.command(), "forced_reply": forced.to_string(), "second_go": g.args, "last_info": g.info_lines.last()}}));
        }
        let mut last: HashMap<u64, (i64, String)> = HashMap::new();
        let mut maxd = 0;
        for l in &g.info_lines {
            if let Ok(i) = parse_info(l, true) {
                maxd = maxd.max(i.depth);
                last.insert(i.depth, (score_key(&i.score), l.clone()));
            }
        }
        for (d, (sc, l)) in &last {
            if *d < maxd && *sc < 0 {
                acc.violation(
                    format!("C10|missed-draw-go-after-go|{}|d{}", c.to_fen(), d),
                    format!("real binary: after '{}', a first go answered with the only legal move {} and a second go without a new position, {} leads to a position that occurred twice in the described game, yet completed depth {} ends with a negative score: {:?}", truncate(&hist.command(), 200), forced, cyc[0], d, l),
                    json!({"kind": "session", "property": "C10", "script": [hist.command(), format!("go {}", first_args).trim().to_string(), g.args]}),
                );
            }
        }
        acc
    });
    for a in res {
        run.acc.merge(a, &[]);
    }
}

// ------------------------------------------------------------------------------------------------
// C11 (black box): the move PLAYED. The in-process part judges what the search hands back; what
// is played is decided by the polling I/O thread, which takes the moves off the channel.
// ------------------------------------------------------------------------------------------------

/// The black-box clauses of C11 for one answered go (pure; also used by replays). `mate1` /
/// `losing` come from the oracle's solver. Returns a description of the violation, if any.
pub fn c11_judge_played(p: &Pos, mate1: bool, losing: &[Mv], plan_ms: u64, info_lines: &[String], played: Mv) -> (u64, Option<String>) {
    let mut deepest_in_time = 0u64;
    let mut witness = String::new();
    for l in info_lines {
        if let Ok(i) = parse_info(l, true) {
            if i.time.map(|t| t < plan_ms).unwrap_or(false) && i.depth > deepest_in_time {
                deepest_in_time = i.depth;
                witness = l.clone();
            }
        }
    }
    if mate1 && deepest_in_time >= 2 && !is_checkmate(&apply(p, played)) {
        return (deepest_in_time, Some(format!("{} has a mate in one, the search finished its first iteration in time (line {:?} was printed before the allowance of {} ms ended), yet the move played is {} which does not give checkmate", p.to_fen(), witness, plan_ms, played)));
    }
    if !mate1 && deepest_in_time >= 3 && losing.contains(&played) {
        return (deepest_in_time, Some(format!("on {} some moves allow a mate in one and others do not, the search finished its second iteration in time (line {:?} was printed before the allowance of {} ms ended), yet the move played is {} which allows mate in one", p.to_fen(), witness, plan_ms, played)));
    }
    (deepest_in_time, None)
}

/// roots: (position, mate-in-one root?, moves that allow the opponent a mate in one)
pub fn c11_blackbox(run: &mut Run, roots: &[(Pos, bool, Vec<Mv>)]) {
    let seed = run.seed;
    let plain = match bb::build_plain() {
        Ok(b) => b,
        Err(e) => {
            run.acc.inconclusive.push(e);
            return;
        }
    };
    if roots.is_empty() {
        return;
    }
    let sessions = run.tier.pick(16usize, 160);
    let per = run.tier.pick(24usize, 60);
    let res = run_parallel(8, sessions, |sid| {
        let mut acc = Acc::new();
        let mut rng = Rng::stream(seed, 0xC11_B000 + sid as u64);
        let mut s = match Sess::start(&plain, SpawnOpts::default(), false) {
            Ok(s) => s,
            Err(e) => {
                acc.inconclusive.push(format!("session start failed: {}", e));
                return acc;
            }
        };
        for _ in 0..per {
            let (p, mate1, losing) = &roots[rng.below(roots.len() as u64) as usize];
            s.position_fen(p);
            // short slices: the deadline falls while improvements are still streaming in
            let ms = *rng.pick(&[1u32, 2, 2, 3, 3, 4, 5, 6, 8, 12, 20]);
            let mut g = s.go(&slice_args(p.stm, ms, &mut rng), WATCHDOG);
            let text = match &g.bestmove {
                Some((t, _)) => t.clone(),
                None => {
                    acc.inconclusive.push("C11 black box: go not answered".into());
                    return acc;
                }
            };
            s.settle(&mut g, WATCHDOG);
            acc.evaluations += 1;
            let played = match parse_mv(&text) {
                Some(m) if legal_moves(p).contains(&m) => m,
                _ => continue, // C03's business
            };
            // lines printed before the allowance ended (their own time field, whole ms since the
            // go, is below the plan): the iteration before the deepest such line had finished
            let plan = g.plan_ms as u64;
            let (deepest_in_time, verdict) = c11_judge_played(p, *mate1, losing, plan, &g.info_lines, played);
            let case = json!({"kind": "session", "property": "C11", "script": [format!("position fen {}", p.to_fen6(0, 1)), g.args.clone()], "transcript_tail": s.eng.transcript_text(12)});
            if *mate1 {
                if acc.distinct.insert(hash64(&format!("bb1|{}|{}", p.to_fen(), g.args))) {
                    acc.feature("blackbox_mate_in_1_root");
                }
                if deepest_in_time >= 2 {
                    acc.feature("blackbox_mate_in_1_root_first_iteration_finished_in_time");
                }
                if let Some(why) = verdict {
                    acc.violation(format!("C11|played-not-mate|{}|{}", p.to_fen(), g.args), format!("real binary, '{}': {}", g.args, why), case);
                }
            } else {
                if acc.distinct.insert(hash64(&format!("bb2|{}|{}", p.to_fen(), g.args))) {
                    acc.feature("blackbox_avoidable_mate_root");
                }
                if deepest_in_time >= 3 {
                    acc.feature("blackbox_avoidable_mate_root_second_iteration_finished_in_time");
                }
                if let Some(why) = verdict {
                    acc.violation(format!("C11|played-into-mate|{}|{}", p.to_fen(), g.args), format!("real binary, '{}': {}", g.args, why), case);
                }
            }
        }
        acc
    });
    for a in res {
        run.acc.merge(a, &[]);
    }
    // three-man roots on the real binary with slices of 60-250 ms (the search gets 12-20 plies
    // deep there): every `score mate N`, N > 0, on any line is decided by the exact tables
    let dtm = crate::oracle::dtm::dtm();
    let sessions = run.tier.pick(16usize, 96);
    let per = run.tier.pick(5usize, 16);
    let res = run_parallel(16, sessions, |sid| {
        let mut acc = Acc::new();
        let mut rng = Rng::stream(seed, 0xC11_D000 + sid as u64);
        let mut s = match Sess::start(&plain, SpawnOpts::default(), false) {
            Ok(s) => s,
            Err(e) => {
                acc.inconclusive.push(format!("session start failed: {}", e));
                return acc;
            }
        };
        let mut done = 0;
        let mut tries = 0;
        while done < per && tries < 4000 {
            tries += 1;
            let kind = *rng.pick(&[Kind::Queen, Kind::Rook, Kind::Rook, Kind::Pawn]);
            let att = if rng.chance(1, 2) { Color::White } else { Color::Black };
            let mut p = Pos::empty();
            let (a, b, c) = (rng.below(64) as usize, rng.below(64) as usize, rng.below(64) as usize);
            if a == b || a == c || b == c || (kind == Kind::Pawn && (c < 8 || c >= 56)) {
                continue;
            }
            p.sq[a] = Some((att, Kind::King));
            p.sq[b] = Some((att.other(), Kind::King));
            p.sq[c] = Some((att, kind));
            p.stm = att;
            if !is_legal_position(&p) || legal_moves(&p).is_empty() {
                continue;
            }
            let truth = match dtm.mate_in_moves(&p) {
                Ok(Some(t)) if (4..=6).contains(&t) => t,
                _ => continue,
            };
            done += 1;
            s.position_fen(&p);
            let ms = 60 + rng.below(190) as u32;
            let mut g = s.go(&slice_args(p.stm, ms, &mut rng), WATCHDOG);
            if g.bestmove.is_none() {
                acc.inconclusive.push("C11 three-man black box: go not answered".into());
                return acc;
            }
            s.settle(&mut g, WATCHDOG);
            acc.evaluations += 1;
            acc.count("blackbox_three_man_gos", 1);
            let mut claims = 0;
            for l in &g.info_lines {
                if let Ok(inf) = parse_info(l, true) {
                    acc.max("blackbox_three_man_max_depth", inf.depth);
                    if let Score::Mate(n) = inf.score {
                        if n > 0 {
                            claims += 1;
                            if (n as u32) < truth {
                                acc.violation(
                                    format!("C11|false-mate-bb|{}|{}", p.to_fen(), n),
                                    format!("real binary, '{}' on {}: {:?} claims mate in {} but the shortest forced mate takes {} moves (exact distance-to-mate table)", g.args, p.to_fen(), l, n, truth),
                                    json!({"kind": "session", "property": "C11", "script": [format!("position fen {}", p.to_fen6(0, 1)), g.args.clone()]}),
                                );
                            }
                        }
                    }
                }
            }
            acc.count("blackbox_three_man_mate_claims_decided", claims);
            if claims > 0 && acc.distinct.insert(hash64(&format!("bb3|{}|{}", p.to_fen(), g.args))) {
                acc.feature("blackbox_three_man_root_with_mate_claims");
            }
        }
        acc
    });
    for a in res {
        run.acc.merge(a, &["blackbox_three_man_max_depth"]);
    }
}

// ------------------------------------------------------------------------------------------------
// Info bursts at the deadline (C03 / C18): on a root with a mate in one the search thread races
// through the iterations and prints about a hundred info lines within a millisecond or two. With a
// slice of 1-3 ms the I/O thread prints `bestmove` while that burst is in full flow - the moment
// at which the two threads are most likely to write to standard output at the same time.
// ------------------------------------------------------------------------------------------------

pub fn burst_roots(seed: u64, n: usize) -> Vec<Pos> {
    let mut rng = Rng::stream(seed, 0xB0857);
    let mut out: Vec<Pos> = Vec::new();
    for fen in ["k7/8/1K6/8/8/8/8/7R w - -", "6k1/5ppp/8/8/8/8/5PPP/3R2K1 w - -", "8/8/8/8/7Q/8/k1K5/8 w - -", "r1bqkb1r/pppp1ppp/2n2n2/4p2Q/2B1P3/8/PPPP1PPP/RNB1K1NR w KQkq -"] {
        let p = Pos::parse_fen(fen).unwrap();
        if Solver::new(200_000).mate_in(&p, 1) == Some(true) {
            out.push(p);
        }
    }
    let mats: &[(&[Kind], &[Kind])] = &[(&[Kind::Queen], &[]), (&[Kind::Rook], &[]), (&[Kind::Rook, Kind::Rook], &[]), (&[Kind::Queen, Kind::Pawn], &[Kind::Pawn]), (&[Kind::Queen], &[Kind::Rook])];
    let mut tries = 0;
    while out.len() < n && tries < 200_000 {
        tries += 1;
        let (w, b) = mats[rng.below(mats.len() as u64) as usize];
        let stm = if rng.chance(1, 2) { Color::White } else { Color::Black };
        if let Some(p) = super::c11::material_position(&mut rng, w, b, stm) {
            if Solver::new(100_000).mate_in(&p, 1) == Some(true) {
                out.push(p);
            }
        }
    }
    out
}

/// `prop` = "C03": exactly one well-formed legal bestmove per go; "C18": every info line well-formed.
pub fn burst_sessions(run: &mut Run, prop: &'static str) {
    let seed = run.seed;
    let plain = match bb::build_plain() {
        Ok(b) => b,
        Err(e) => {
            run.acc.inconclusive.push(e);
            return;
        }
    };
    let roots = burst_roots(seed, 24);
    if roots.is_empty() {
        return;
    }
    let sessions = run.tier.pick(16usize, 128);
    let per = run.tier.pick(40usize, 120);
    // strace may be unavailable (ptrace forbidden): then only the undelayed sessions run
    let strace_ok = std::process::Command::new("strace").args(["-f", "-q", "-e", "trace=write", "-e", "inject=write:delay_exit=1", "-o", "/dev/null", "true"]).output().map(|o| o.status.success()).unwrap_or(false);
    run.set("strace_write_delay_injection_available", json!(strace_ok));
    let pt_ok = bb::ptdelay_tool(&plain).is_some();
    run.set("ptrace_stdout_call_delay_injection_available", json!(pt_ok));
    let pt_hits = std::sync::atomic::AtomicU64::new(0);
    let pt_delayed = std::sync::atomic::AtomicU64::new(0);
    let res = run_parallel(16, sessions, |sid| {
        let mut acc = Acc::new();
        let mut rng = Rng::stream(seed, 0xB085_0000 + sid as u64);
        let mut opts = SpawnOpts::default();
        if sid % 4 == 3 {
            opts.pin_cpu = Some(sid % 16);
        }
        // half of the sessions run under strace with a delay injected after every write system
        // call: two writes that belong together but are not made under one lock are pulled apart
        let mut delayed = sid % 4 == 0 && strace_ok;
        if delayed {
            opts.pin_cpu = None;
            opts.strace_write_delay_us = Some(*rng.pick(&[150u32, 300, 600]));
        }
        // a quarter under ptdelay: a thread arriving at one of the standard library's entry
        // points for standard output is held there for up to 0.3-2 ms while the other thread runs
        // on - two calls that belong to one protocol line but are not made under one lock are
        // pulled apart in user space, where strace's system-call delays cannot reach
        let pt = sid % 4 == 2 && pt_ok;
        if pt {
            opts.pin_cpu = None;
            opts.ptdelay = Some((*rng.pick(&[300u32, 1000, 2000]), seed ^ (sid as u64) << 8));
            delayed = true;
        }
        let mut s = match Sess::start(&plain, opts, false) {
            Ok(s) => s,
            Err(e) => {
                acc.inconclusive.push(format!("session start failed: {}", e));
                return acc;
            }
        };
        for i in 0..per {
            let p = &roots[rng.below(roots.len() as u64) as usize];
            s.position_fen(p);
            let ms = if delayed { 2 + rng.below(30) as u32 } else { *rng.pick(&[1u32, 1, 2, 2, 3, 4]) };
            let mut g = s.go(&slice_args(p.stm, ms, &mut rng), WATCHDOG);
            if pt {
                acc.feature("go_under_injected_stdout_call_delays");
            } else if delayed {
                acc.feature("go_under_injected_write_delays");
            }
            let script = vec![format!("position fen {}", p.to_fen6(0, 1)), g.args.clone()];
            let case = json!({"kind": "session", "property": prop, "script": script, "transcript_tail": s.eng.transcript_text(8)});
            let text = match &g.bestmove {
                Some((t, _)) => t.clone(),
                None => {
                    if prop == "C03" {
                        // the line may have been glued to another one: look at what did arrive
                        let tail = s.eng.transcript_text(6);
                        if s.eng.exited().is_none() && s.eng.thread_count() <= 1 {
                            acc.violation(format!("C03|burst-no-answer|{}|{}", p.to_fen(), i), format!("no bestmove line for '{}' on {} although the search is over (last output: {:?})", g.args, p.to_fen(), tail), case);
                        } else {
                            acc.inconclusive.push("burst go not answered".into());
                        }
                    } else {
                        // C18: the lines that did arrive are still judged (a line glued to another
                        // one starts with `info` and is no info line)
                        s.settle(&mut g, WATCHDOG);
                        check_transcript_lines(&g.info_lines, p, &g.args, &mut acc);
                    }
                    return acc;
                }
            };
            s.settle(&mut g, WATCHDOG);
            acc.evaluations += 1;
            if g.info_lines.len() >= 10 {
                acc.feature("go_with_info_burst_at_the_deadline");
                acc.distinct.insert(hash64(&format!("burst|{}|{}|{}", p.to_fen(), sid, i)));
            }
            if prop == "C03" {
                if g.n_bestmove_lines != 1 {
                    acc.violation(format!("C03|burst-count|{}", p.to_fen()), format!("{} bestmove lines for one '{}' on {}", g.n_bestmove_lines, g.args, p.to_fen()), case.clone());
                }
                let ok = super::c03::wellformed_move(&text) && parse_mv(&text).map(|m| legal_moves(p).contains(&m)).unwrap_or(false);
                if !ok {
                    acc.violation(format!("C03|burst-malformed|{}|{}", p.to_fen(), truncate(&text, 40)), format!("'{}' on {} answered 'bestmove {}', which is not one legal move in long algebraic notation", g.args, p.to_fen(), truncate(&text, 120)), case.clone());
                }
            } else {
                check_transcript_lines(&g.info_lines, p, &g.args, &mut acc);
            }
        }
        if pt {
            if let Some((h, d)) = s.eng.ptdelay_stats() {
                pt_hits.fetch_add(h, std::sync::atomic::Ordering::Relaxed);
                pt_delayed.fetch_add(d, std::sync::atomic::Ordering::Relaxed);
            }
        }
        acc
    });
    for a in res {
        run.acc.merge(a, &[]);
    }
    run.set("ptrace_stdout_call_arrivals_observed", json!(pt_hits.load(std::sync::atomic::Ordering::Relaxed)));
    run.set("ptrace_stdout_call_arrivals_delayed", json!(pt_delayed.load(std::sync::atomic::Ordering::Relaxed)));
}
