//! Black-box / two-thread parts of the monitors (filled in below).
use crate::ev::Run;

pub fn c09_timed(_run: &mut Run) {}
pub fn c07_schedules(_run: &mut Run) {}
pub fn c18_blackbox(_run: &mut Run) {}
pub fn c10_blackbox(_run: &mut Run, _lost: &[crate::oracle::Pos]) {}
