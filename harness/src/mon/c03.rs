//! C03: every `go` on a legal non-terminal position is answered by exactly one legal,
//! well-formed `bestmove`, for all go parameters, chains of go, and schedules of the two threads.
//! Offline checkers over the UCI transcript and (hooked build) the internal event log.

use super::rules_driver::truncate;
use super::searchlib::{make_history, History};
use crate::bb::{self, SpawnOpts};
use crate::ev::{Acc, Run, Tier};
use crate::oracle::*;
use crate::par;
use crate::rng::{hash64, Rng};
use crate::sess::*;
use crate::workload;
use serde_json::json;
use std::collections::BTreeMap;
use std::path::PathBuf;
use std::sync::Mutex;
use std::time::Duration;

#[derive(Clone, Debug)]
pub struct Mode {
    pub name: String,
    pub hooked: bool,
    pub pin: bool,
    pub failpoints: Option<String>,
    /// plain binary under `ptdelay`: threads are held at the channel operations, at the start of
    /// the search thread and at the standard library's entry points for standard output
    pub ptdelay: bool,
}

pub fn wellformed_move(t: &str) -> bool {
    let b = t.as_bytes();
    (b.len() == 4 || b.len() == 5)
        && (b'a'..=b'h').contains(&b[0])
        && (b'1'..=b'8').contains(&b[1])
        && (b'a'..=b'h').contains(&b[2])
        && (b'1'..=b'8').contains(&b[3])
        && (b.len() == 4 || b"qrbn".contains(&b[4]))
}

pub const FAILPOINT_SETS: &[&str] = &[
    "search_thread_start=3000",
    "search_before_send=4000",
    "io_loop_top=2500",
    "io_after_recv=3000,io_before_bestmove=3000",
    "search_root_move=400,search_before_send=1500,io_loop_top=1500",
    "search_thread_start=1500,search_root_move=200,search_before_send=800,io_loop_top=800,io_after_recv=800,io_before_bestmove=800",
    "search_thread_start=20000",
    "io_before_bestmove=8000",
];

/// Non-terminal roots with their position commands.
pub fn session_roots(seed: u64, n: usize) -> Vec<History> {
    let starts = workload::start_positions(seed, 40).unwrap_or_default();
    let mut rng = Rng::stream(seed, 0x5E55);
    let mut out = Vec::new();
    // roots where a promotion can be answered by castling (a descriptor field inherited from the
    // previous answer shows only in chains of go without a new position), and other special-move roots
    for fen in [
        "r3kb2/7P/8/8/8/8/8/4K3 w q -",
        "2b1k2r/P7/8/8/8/8/8/4K3 w k -",
        "4k3/8/8/8/8/8/7p/R3KB2 b Q -",
        "4k3/8/8/8/8/8/p7/2B1K2R b K -",
        "r3k2r/1P4P1/8/8/8/8/1p4p1/R3K2R w KQkq -",
        "rnbqkbnr/ppp1pppp/8/8/3pP3/8/PPPP1PPP/RNBQKBNR b KQkq e3",
        "4k3/PPP1P1PP/8/8/8/8/ppp1p1pp/4K3 w - -",
        // quiet middle games in which both sides may castle either way (two special successors at the root)
        "r3k2r/pppq1ppp/2np1n2/2b1p3/2B1P1b1/2NP1N2/PPPQ1PPP/R3K2R w KQkq -",
        "r3k2r/ppp1qppp/2n1bn2/3pp3/3PP3/2N1BN2/PPP1QPPP/R3K2R b KQkq -",
    ] {
        let p = Pos::parse_fen(fen).unwrap();
        if is_legal_position(&p) && has_legal_move(&p) {
            out.push(History { start: p.clone(), moves: vec![], end: p });
        }
    }
    let mut guard = 0;
    while out.len() < n && guard < n * 30 {
        guard += 1;
        let base = if rng.chance(1, 3) { Pos::start() } else { starts[rng.below(starts.len() as u64) as usize].clone() };
        if !has_legal_move(&base) {
            continue;
        }
        let h = match rng.below(5) {
            0 => History { start: base.clone(), moves: vec![], end: base },
            1 | 2 => make_history(&base, &mut rng, 30, 0, 0),
            3 => make_history(&base, &mut rng, 10, 1, 3),
            // the root itself has been on the board before (the history ends with complete
            // shuffle cycles): a game that is not over although a position has recurred
            _ => {
                let cycles = 1 + rng.below(3) as usize;
                make_history(&base, &mut rng, 8, cycles, 0)
            }
        };
        if has_legal_move(&h.end) {
            out.push(h);
        }
    }
    out
}

/// Run one session; all observations go to `acc`. Returns interleaving signatures (hooked).
pub fn run_session(bin: &PathBuf, mode: &Mode, roots: &[History], seed: u64, sid: u64, steps: usize, max_chain: usize, acc: &mut Acc, unanswered: &mut Vec<(String, String, u128)>) -> Vec<String> {
    let mut rng = Rng::stream(seed, 0xC03_0000 + sid);
    let mut opts = SpawnOpts::default();
    if mode.pin {
        opts.pin_cpu = Some((sid % 16) as usize);
    }
    if mode.ptdelay {
        opts.ptdelay = Some((*rng.pick(&[500u32, 1500, 4000]), seed.wrapping_mul(17).wrapping_add(sid)));
        opts.ptset = crate::bb::PtSet::Both;
    }
    if let Some(fp) = &mode.failpoints {
        opts.env.push(("WALLEYE_VERIF_FP".into(), format!("{};seed={};prob=70", fp, seed.wrapping_mul(31).wrapping_add(sid))));
    }
    let mut s = match Sess::start(bin, opts, mode.hooked) {
        Ok(s) => s,
        Err(e) => {
            acc.inconclusive.push(format!("session start failed ({}): {}", mode.name, e));
            return vec![];
        }
    };
    // the engine's one option (a log file in the scratch directory) is on in a third of the sessions
    if rng.chance(1, 3) {
        s.eng.send(*rng.pick(&["setoption name DebugLogLevel value Info", "setoption DebugLogLevel Info"]));
        acc.feature("session_with_log_file_switched_on");
    }
    let mut go_count = 0u64;
    let mut panics_seen = 0usize;
    'outer: for _step in 0..steps {
        let special = rng.chance(1, 6);
        let hist = if special { &roots[rng.below(9.min(roots.len() as u64)) as usize] } else { &roots[rng.below(roots.len() as u64) as usize] };
        s.position(hist);
        let chain = if special { 2 + rng.below(3) as usize } else { 1 + rng.below(max_chain as u64) as usize };
        for ci in 0..chain {
            let cur = match &s.cur {
                Some(p) => p.clone(),
                None => break,
            };
            let legal = legal_moves(&cur);
            if legal.is_empty() {
                break; // terminal positions belong to C08
            }
            // special roots: mostly a bare go; a quarter with a slice of some 30 ms, so that the board
            // kept for the next go comes out of a search of several iterations
            let args = if special && rng.chance(1, 2) {
                String::new()
            } else if special && rng.chance(1, 2) {
                format!("wtime {} btime {} movestogo 1", 130 + rng.below(30), 130 + rng.below(30))
            } else {
                go_args(&mut rng, cur.stm, 150)
            };
            let mut g = s.go(&args, WATCHDOG);
            go_count += 1;
            acc.evaluations += 1;
            let script: Vec<String> = s.eng.transcript.iter().filter(|e| e.dir == crate::bb::Dir::Sent).map(|e| e.line.clone()).collect();
            let case = |s: &Sess| json!({"kind": "session", "property": "C03", "mode": mode.name, "failpoints": mode.failpoints, "pinned": mode.pin, "hooked": mode.hooked,
                "script": script, "transcript_tail": s.eng.transcript_text(40)});
            let feat = if g.plan_ms == 0 { "zero_slice" } else if g.plan_ms < 5 { "slice_below_5ms" } else { "timed_slice" };
            if acc.distinct.insert(hash64(&format!("{}|{}|{}|{}", mode.name, cur.to_fen(), g.args, sid))) {
                acc.feature(feat);
                if ci > 0 {
                    acc.feature("chained_go");
                }
                acc.feature(&format!("mode_{}", mode.name));
            }
            let tag = format!("{}|{}", cur.to_fen(), g.args);
            match &g.bestmove {
                None => {
                    let exited = s.eng.exited();
                    let threads = s.eng.thread_count();
                    if exited.is_some() {
                        acc.violation(format!("C03|died|{}", tag), format!("engine process ended ({:?}) instead of answering '{}' on {}; stderr: {}", exited, g.args, cur.to_fen(), truncate(&s.eng.stderr_text(), 300)), case(&s));
                    } else if threads <= 1 {
                        acc.violation(format!("C03|no-answer|{}", tag), format!("no bestmove for '{}' on {} after plan {} ms + 10 s and the search thread is gone (threads = {})", g.args, cur.to_fen(), g.plan_ms, threads), case(&s));
                    } else {
                        // still searching 10 s after the plan: decided by solo re-runs after the sweep
                        acc.count("unanswered_with_live_search_thread", 1);
                        unanswered.push((format!("position fen {}", cur.to_fen6(0, 1)), g.args.clone(), g.plan_ms));
                    }
                    break 'outer;
                }
                Some((text, _)) => {
                    let text = text.clone();
                    let boundary_ok = s.settle(&mut g, WATCHDOG);
                    if !boundary_ok {
                        if s.eng.exited().is_some() {
                            acc.violation(format!("C03|died-after|{}", tag), format!("engine process ended after answering '{}' on {}; stderr: {}", g.args, cur.to_fen(), truncate(&s.eng.stderr_text(), 300)), case(&s));
                        } else {
                            acc.inconclusive.push(format!("watchdog: no readyok after '{}' on {}", g.args, cur.to_fen()));
                        }
                        break 'outer;
                    }
                    // a panic of the detached search thread does not cost the answer; it is not a
                    // C03 refuter but it is recorded with its root so that C07 can replay it
                    let err_now = s.eng.stderr_text();
                    let n_panics = err_now.matches("panicked at").count();
                    if n_panics > panics_seen {
                        panics_seen = n_panics;
                        acc.count("go_with_search_thread_panic_handed_to_C07", 1);
                        let msg = err_now.lines().rev().filter(|l| l.contains("panicked at") || l.contains("index out") || l.contains("overflow") || l.contains("called `")).take(2).collect::<Vec<_>>().join(" | ");
                        if acc.samples.len() < 6 {
                            acc.samples.push(json!({"search_thread_panic": msg, "root": cur.to_fen(), "go": g.args, "chain_index": ci, "position_command": truncate(&hist.command(), 300), "mode": mode.name}));
                        }
                    }
                    if g.n_bestmove_lines != 1 {
                        acc.violation(format!("C03|count|{}", tag), format!("{} bestmove lines for one '{}' on {}", g.n_bestmove_lines, g.args, cur.to_fen()), case(&s));
                    }
                    if !wellformed_move(&text) {
                        acc.violation(format!("C03|malformed|{}|{}", tag, text), format!("bestmove '{}' is not long algebraic notation ('{}' on {})", text, g.args, cur.to_fen()), case(&s));
                        s.cur = None;
                        break;
                    }
                    match parse_mv(&text) {
                        Some(m) if legal.contains(&m) => {
                            if m.promo.is_some() {
                                acc.feature("promotion_answer");
                            }
                            s.cur = Some(apply(&cur, m));
                        }
                        _ => {
                            let bare_legal = parse_mv(&text[..4]).map(|m| legal.iter().any(|l| l.from == m.from && l.to == m.to)).unwrap_or(false);
                            acc.violation(
                                format!("C03|illegal|{}|{}", tag, text),
                                format!("bestmove '{}' is not a legal move of {} ('{}', go #{} of the chain{})", text, cur.to_fen(), g.args, ci + 1, if bare_legal { "; the squares are right but the promotion letter is wrong" } else { "" }),
                                case(&s),
                            );
                            s.cur = None;
                            break;
                        }
                    }
                }
            }
        }
    }
    if let Some(err) = s.stderr_has_panic() {
        acc.count("sessions_with_panic_on_stderr_handed_to_C07", 1);
        let first = err.lines().filter(|l| l.contains("panicked") || l.contains("called `") || l.contains("index out") || l.contains("overflow")).take(3).collect::<Vec<_>>().join(" | ");
        if acc.samples.len() < 4 {
            acc.samples.push(json!({"panic_on_stderr": first, "mode": mode.name, "failpoints": mode.failpoints, "last_commands": s.eng.transcript.iter().filter(|e| e.dir == crate::bb::Dir::Sent).rev().take(4).map(|e| truncate(&e.line, 200)).collect::<Vec<_>>()}));
        }
    }
    acc.count("go_commands", go_count);
    // event-log checker -------------------------------------------------------------------------
    let mut sigs = Vec::new();
    if mode.hooked {
        s.eng.send("quit");
        let _ = s.eng.wait_exit(Duration::from_secs(3));
        let recs = s.read_log();
        let gos = analyse_log(&recs);
        acc.count("event_log_records", recs.len() as u64);
        acc.count("event_log_gos", gos.len() as u64);
        for g in &gos {
            sigs.push(g.signature.clone());
            if let Some(root) = &g.root {
                if !has_legal_move(root) {
                    continue;
                }
            }
            for p in &g.problems {
                acc.violation(
                    format!("C03|eventlog|{}|{}", g.root.as_ref().map(|r| r.to_fen()).unwrap_or_default(), truncate(p, 60)),
                    format!("event log of one go (root {}, slice {:?} ms, interleaving [{}]): {}", g.root.as_ref().map(|r| r.to_fen()).unwrap_or_default(), g.slice_ms, g.signature, p),
                    json!({"kind": "session", "property": "C03", "mode": mode.name, "failpoints": mode.failpoints, "interleaving": g.signature}),
                );
            }
        }
    }
    sigs
}

pub fn run_parallel<T: Send>(threads: usize, n: usize, f: impl Fn(usize) -> T + Sync) -> Vec<T> {
    let next = std::sync::atomic::AtomicUsize::new(0);
    let out: Mutex<Vec<Option<T>>> = Mutex::new((0..n).map(|_| None).collect());
    std::thread::scope(|s| {
        for _ in 0..threads.min(n.max(1)) {
            s.spawn(|| loop {
                let i = next.fetch_add(1, std::sync::atomic::Ordering::Relaxed);
                if i >= n {
                    break;
                }
                let r = f(i);
                out.lock().unwrap()[i] = Some(r);
            });
        }
    });
    out.into_inner().unwrap().into_iter().map(|x| x.unwrap()).collect()
}

pub fn run(tier: Tier, seed: u64) -> i32 {
    let mut run = Run::new("C03", tier, seed, "exploration");
    run.rule = "evaluation = one `go` sent to the real binary in a UCI session (history recorded at the client boundary: send events before writing, receive events stamped when read). Sessions: position commands from oracle-built histories (startpos/FEN + legal move lists, non-terminal), go parameters from a grid of clock values (absent, 0, negative, -10^18, 1, 99..3000; huge values for the side not to move; unknown tokens mixed in; planned slice <= 150 ms), chains of 1..8 (quick) / 1..30 (thorough) go without a new position. Checked per go: exactly one bestmove line before the next readyok boundary, long-algebraic spelling, legality in the oracle-tracked current position, promotion letter iff promoting. Schedules: plain binary 16 and 48 engines in parallel, plain binary pinned to one CPU per engine, plain binary under ptrace delay injection (ptdelay: a thread arriving at a channel send/try_recv, at the drop of a channel end, at its own first instruction or at one of the standard library's entry points for standard output is held there for up to 0.5-4 ms while the other thread runs on), hooked binary with seeded failpoint delays at six pre-emptible points of the two threads, whose internal event log is checked offline (FIFO/exactly-once between search_send and io_recv, printed move = last received, every sent move legal); info-burst sessions: mate-in-one roots, on which the search prints about a hundred info lines within a millisecond or two, with slices of 1-4 ms so that bestmove is printed while the burst is in flow (exactly one well-formed legal bestmove line each); pipelined sessions on the plain binary: the whole script (positions, go chains with plans <= 30 ms, isready) written without waiting for replies - in one write, line by line, or in pieces of 1..40 bytes that cut lines in two - and ended by nothing, quit or end of input; checked offline: the bestmove/readyok lines appear in exactly the order of the go/isready lines, every bestmove legal in the tracked position. Non-trivial = every go; distinct by (mode, position, go line, session)".into();
    run.assumptions = vec![
        "a missing answer is a violation only when the process has died or its search thread is gone (/proc/<pid>/task); a watchdog expiry with a live search thread is inconclusive".into(),
        "a 'panicked' line on stderr that does not cost the answer is counted and handed to C07, it is not a C03 refuter".into(),
        "failpoints sit between statements that hold no lock, so they stretch real pre-emption windows only".into(),
    ];
    let plain = match bb::build_plain() {
        Ok(b) => b,
        Err(e) => {
            println!("INCONCLUSIVE {}", e);
            return 2;
        }
    };
    let hooked = match bb::build_hooked() {
        Ok(b) => b,
        Err(e) => {
            println!("INCONCLUSIVE {}", e);
            return 2;
        }
    };
    let roots = session_roots(seed, tier.pick(150, 1500));
    let (steps, max_chain) = (tier.pick(6, 12), tier.pick(8, 30));
    let mut plan: Vec<(Mode, usize, usize)> = Vec::new(); // mode, sessions, parallelism
    plan.push((Mode { name: "plain_par16".into(), hooked: false, pin: false, failpoints: None, ptdelay: false }, tier.pick(16, 160), 16));
    plan.push((Mode { name: "plain_par48".into(), hooked: false, pin: false, failpoints: None, ptdelay: false }, tier.pick(48, 240), 48));
    plan.push((Mode { name: "plain_pinned".into(), hooked: false, pin: true, failpoints: None, ptdelay: false }, tier.pick(16, 160), 16));
    if bb::ptdelay_tool(&plain).is_some() {
        plan.push((Mode { name: "plain_ptdelay".into(), hooked: false, pin: false, failpoints: None, ptdelay: true }, tier.pick(12, 96), 16));
    }
    plan.push((Mode { name: "hooked_nofp".into(), hooked: true, pin: false, failpoints: None, ptdelay: false }, tier.pick(8, 64), 16));
    for (i, fp) in FAILPOINT_SETS.iter().enumerate() {
        plan.push((Mode { name: format!("hooked_fp{}", i), hooked: true, pin: i % 3 == 2, failpoints: Some(fp.to_string()), ptdelay: false }, tier.pick(6, 64), 16));
    }
    let mut all_sigs: BTreeMap<String, u64> = BTreeMap::new();
    let mut unanswered_all: Vec<(String, String, u128)> = Vec::new();
    let mut sid_base = 0u64;
    for (mode, sessions, parallel) in plan {
        let bin = if mode.hooked { &hooked } else { &plain };
        let res = run_parallel(parallel, sessions, |i| {
            let mut acc = Acc::new();
            let mut un = Vec::new();
            let sigs = run_session(bin, &mode, &roots, seed, sid_base + i as u64, steps, max_chain, &mut acc, &mut un);
            (acc, sigs, un)
        });
        sid_base += sessions as u64;
        for (a, sigs, un) in res {
            unanswered_all.extend(un);
            run.acc.merge(a, &[]);
            for s in sigs {
                *all_sigs.entry(s).or_insert(0) += 1;
            }
        }
    }
    // pipelined sessions: the whole script is written without waiting for replies, so every
    // command but the first arrives while a search is running or while the I/O thread is busy
    {
        use super::pipe::{self, Chunking, End};
        let n = tier.pick(48usize, 480);
        let res = run_parallel(16, n, |i| {
            let mut acc = Acc::new();
            let mut rng = Rng::stream(seed, 0xC03_9000 + i as u64);
            let steps = 2 + rng.below(5) as usize;
            let lines = pipe::make_script(&mut rng, &roots, steps, 4, 30);
            let end = *rng.pick(&[End::Open, End::Quit, End::Eof, End::Eof]);
            let chunking = match rng.below(4) {
                0 => Chunking::PerLine,
                1 => Chunking::Pieces(1 + rng.below(40) as usize),
                _ => Chunking::OneWrite,
            };
            if let Some(j) = pipe::observe_c03(&plain, &lines, end, chunking, seed ^ i as u64, &mut acc) {
                if acc.distinct.insert(hash64(&format!("pipelined|{}|{}", i, lines.len()))) {
                    acc.feature("mode_plain_pipelined");
                    acc.feature(match end { End::Open => "pipelined_stream_left_open", End::Quit => "pipelined_then_quit", End::Eof => "pipelined_then_end_of_input" });
                    acc.feature(match chunking { Chunking::OneWrite => "pipelined_one_write", Chunking::PerLine => "pipelined_write_per_line", Chunking::Pieces(_) => "pipelined_lines_cut_in_pieces" });
                }
                if i == 0 {
                    acc.sample(json!({"pipelined_script_head": lines.iter().take(6).map(|l| truncate(l, 90)).collect::<Vec<_>>(), "answers": j.answers.iter().take(6).collect::<Vec<_>>()}));
                }
            }
            acc
        });
        for a in res {
            run.acc.merge(a, &[]);
        }
    }
    // info bursts at the deadline: both threads write to standard output at the same moment
    super::timed::burst_sessions(&mut run, "C03");
    // a go that was still unanswered 10 s after its plan while the search thread kept running:
    // three solo re-runs on the now idle machine, a violation only if none is answered
    run.set("unanswered_cases", json!(unanswered_all.len()));
    for (pos_cmd, go_line, plan) in unanswered_all.iter().take(2) {
        let c = super::c08::SlowCase { position_cmd: pos_cmd.clone(), go_args: go_line.clone(), plan_ms: *plan, latency_ms: f64::INFINITY, mode: "solo".into() };
        let lats = super::c08::solo_confirm(&plain, &c);
        if !lats.is_empty() && lats.iter().all(|l| l.is_infinite()) {
            run.acc.violation(
                format!("C03|unanswered|{}|{}", pos_cmd, go_line),
                format!("'{}' after '{}' was not answered within plan ({} ms) + 10 s, in the session and in three solo re-runs (the search thread keeps running)", go_line, pos_cmd, plan),
                json!({"kind": "session", "property": "C03", "script": [pos_cmd, go_line]}),
            );
        } else {
            run.acc.inconclusive.push(format!("'{}' after '{}' unanswered once, answered in a solo re-run", go_line, pos_cmd));
        }
    }
    let mut top: Vec<(&String, &u64)> = all_sigs.iter().collect();
    top.sort_by_key(|x| std::cmp::Reverse(*x.1));
    run.set("interleaving_signatures_distinct", json!(all_sigs.len()));
    run.set("interleaving_signatures_top", json!(top.iter().take(8).map(|(s, n)| json!({"signature": s, "times": n})).collect::<Vec<_>>()));
    run.set("interleaving_legend", json!("S<n> search_send, R<n> io_recv, D poll loop left (deadline seen with a move in hand), B bestmove printed, X search thread exit; order = order in the engine's own event log (one mutex, monotonic stamps)"));
    if let Some((s, _)) = top.first() {
        run.acc.sample(json!({"interleaving": s}));
    }
    run.acc.sample(json!({"position_command": truncate(&roots[0].command(), 160), "go": go_args(&mut Rng::new(seed), roots[0].end.stm, 150)}));
    super::sanit::c03_sanitizer_jobs(&mut run);
    run.floor_distinct = 100;
    run.finish()
}
