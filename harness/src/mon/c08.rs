//! C08: bounded answer time on every legal position, terminal ones included (null move
//! `0000` / `(none)`), and the engine stays responsive afterwards. Bounded-progress restatement
//! of the liveness clause; hangs are decided logically from /proc, not from wall-clock alone.

use super::c03::{run_parallel, session_roots, wellformed_move, Mode, FAILPOINT_SETS};
use super::rules_driver::truncate;
use super::searchlib::History;
use crate::bb::{self, SpawnOpts};
use crate::ev::{Acc, Run, Tier};
use crate::oracle::*;
use crate::rng::{hash64, Rng};
use crate::sess::*;
use crate::workload::{self, Policy};
use serde_json::json;
use std::path::PathBuf;
use std::time::{Duration, Instant};

pub const OVERHEAD_MS: f64 = 300.0;

/// Checkmates and stalemates: sampled endgame families + terminal positions met by random games.
pub fn terminal_positions(seed: u64, n: usize) -> Vec<Pos> {
    let mut rng = Rng::stream(seed, 0x7E2A);
    let mut out: Vec<Pos> = Vec::new();
    for fen in ["7k/5QQ1/8/8/8/8/8/K7 b - -", "k7/2Q5/1K6/8/8/8/8/8 b - -", "r1bqkb1r/pppp1Qpp/2n2n2/4p3/2B1P3/8/PPPP1PPP/RNB1K1NR b KQkq -", "rnb1kbnr/pppp1ppp/8/4p3/6Pq/5P2/PPPPP2P/RNBQKBNR w KQkq -",
        "5k2/5P2/5K2/8/8/8/8/8 b - -", "8/8/8/8/8/5k2/5p2/5K2 w - -", "6k1/5ppp/8/8/8/8/8/3R2K1 b - -", "3R2k1/5ppp/8/8/8/8/8/6K1 b - -"] {
        let p = Pos::parse_fen(fen).unwrap();
        if is_legal_position(&p) && !has_legal_move(&p) {
            out.push(p);
        }
    }
    let mats: &[(&[Kind], &[Kind])] = &[(&[Kind::Queen], &[]), (&[Kind::Rook], &[]), (&[Kind::Pawn], &[]), (&[Kind::Rook, Kind::Rook], &[]), (&[Kind::Queen, Kind::Pawn], &[Kind::Pawn]), (&[Kind::Queen], &[Kind::Pawn, Kind::Pawn])];
    let mut tries = 0;
    while out.len() < n * 2 / 3 && tries < 3_000_000 {
        tries += 1;
        let (w, b) = mats[rng.below(mats.len() as u64) as usize];
        // corner-biased placement
        let mut p = Pos::empty();
        let bk = *rng.pick(&[0u8, 7, 56, 63, 1, 8, 6, 15, 48, 57, 55, 62, 3, 4, 24, 32, 59, 60, 31, 39]);
        p.sq[bk as usize] = Some((Color::Black, Kind::King));
        let mut ok = true;
        let mut put = |p: &mut Pos, pc: (Color, Kind), rng: &mut Rng| {
            for _ in 0..10 {
                let s = if rng.chance(2, 3) {
                    match sq_at(file_of(bk) + rng.range(-2, 2) as i32, rank_of(bk) + rng.range(-2, 2) as i32) {
                        Some(s) => s,
                        None => continue,
                    }
                } else {
                    rng.below(64) as u8
                };
                if p.sq[s as usize].is_none() && !(pc.1 == Kind::Pawn && (rank_of(s) == 0 || rank_of(s) == 7)) {
                    p.sq[s as usize] = Some(pc);
                    return true;
                }
            }
            false
        };
        ok &= put(&mut p, (Color::White, Kind::King), &mut rng);
        for k in w {
            ok &= put(&mut p, (Color::White, *k), &mut rng);
        }
        for k in b {
            ok &= put(&mut p, (Color::Black, *k), &mut rng);
        }
        if !ok {
            continue;
        }
        p.stm = Color::Black;
        let p = if rng.chance(1, 2) { mirror(&p) } else { p };
        if is_legal_position(&p) && !has_legal_move(&p) && !out.contains(&p) {
            out.push(p);
        }
    }
    // terminal positions met by play with full material
    let starts = workload::start_positions(seed, 20).unwrap_or_default();
    let mut games = 0;
    while out.len() < n && games < 4000 {
        games += 1;
        let mut p = starts[rng.below(starts.len() as u64) as usize].clone();
        for _ in 0..250 {
            let ms = legal_moves(&p);
            if ms.is_empty() {
                break;
            }
            let mating = ms.iter().copied().find(|m| !has_legal_move(&apply(&p, *m)));
            let m = mating.unwrap_or_else(|| workload::choose_move(&mut rng, &p, &ms, Policy::Tactical));
            p = apply(&p, m);
        }
        if !has_legal_move(&p) && !out.contains(&p) {
            out.push(p);
        }
    }
    out
}

fn clock_args(rng: &mut Rng, stm: Color, max_plan: u128) -> String {
    for _ in 0..100 {
        let (t, i) = if stm == Color::White { ("wtime", "winc") } else { ("btime", "binc") };
        let mut a = String::new();
        match rng.below(6) {
            0 => {}
            5 => {
                // the wide grid of C03 (negative, zero, huge and out-of-range integers, unknown
                // tokens, any token order) without the counts C08 does not quantify over
                let w = crate::sess::go_args(rng, stm, max_plan);
                let w = format!(" {}", w).replace(" movestogo 0", "").replace(" movestogo -3", "");
                return w.trim().to_string();
            }
            1 => a = format!("{} {}", t, rng.pick(&["0", "50", "100", "101", "150", "400", "1000", "3000", "6100"])),
            2 => a = format!("{} {} movestogo {}", t, rng.pick(&["150", "400", "1000", "3000"]), rng.pick(&["1", "2", "10", "40"])),
            3 => a = format!("wtime {} btime {} winc {} binc {}", rng.pick(&["150", "1000", "3000"]), rng.pick(&["150", "1000", "3000"]), rng.pick(&["0", "10", "100"]), rng.pick(&["0", "10", "100"])),
            _ => a = format!("{} {} {} {}", t, rng.pick(&["0", "40", "90"]), i, rng.pick(&["0", "20", "100", "250"])),
        }
        let line = if a.is_empty() { "go".to_string() } else { format!("go {}", a) };
        if plan_for(&line, stm).map(|p| p <= max_plan).unwrap_or(false) {
            return a;
        }
    }
    String::new()
}

pub struct SlowCase {
    pub position_cmd: String,
    pub go_args: String,
    pub plan_ms: u128,
    pub latency_ms: f64,
    pub mode: String,
}

fn is_null_move(t: &str) -> bool {
    t == "0000" || t == "(none)"
}

/// Wait for the answer of a go; decide a hang from /proc as soon as the search thread is gone.
/// Returns (result, hang_verdict)
fn go_bounded(s: &mut Sess, args: &str) -> (GoResult, Option<String>) {
    let mut g = s.go(args, Duration::from_millis(1500));
    if g.bestmove.is_some() {
        return (g, None);
    }
    // nothing after plan + 1.5 s: look at the process
    let t_end = Instant::now() + WATCHDOG;
    loop {
        if let Some(st) = s.eng.exited() {
            return (g, Some(format!("process ended with status {:?}", st)));
        }
        let threads = s.eng.thread_count();
        if threads <= 1 {
            // search thread gone, main thread alone: confirm that it is idle-polling and silent
            let c0 = s.eng.cpu_seconds().unwrap_or(0.0);
            if let Some(i) = s.eng.wait_for(|l| l.starts_with("bestmove"), Duration::from_millis(300)) {
                let e = &s.eng.transcript[i];
                g.bestmove = Some((crate::sess::bestmove_text(&e.line), e.t));
                return (g, None);
            }
            let c1 = s.eng.cpu_seconds().unwrap_or(0.0);
            return (g, Some(format!("the search thread has exited, no bestmove was printed, the main thread keeps polling (threads = {}, state {:?}, cpu {:.0} ms in 300 ms)", threads, s.eng.main_state(), (c1 - c0) * 1000.0)));
        }
        if let Some(i) = s.eng.wait_for(|l| l.starts_with("bestmove"), Duration::from_millis(200)) {
            let e = &s.eng.transcript[i];
            g.bestmove = Some((crate::sess::bestmove_text(&e.line), e.t));
            return (g, None);
        }
        if Instant::now() > t_end {
            return (g, None);
        }
    }
}

fn run_session(bin: &PathBuf, mode: &Mode, roots: &[History], terminals: &[Pos], seed: u64, sid: u64, steps: usize, acc: &mut Acc, slow: &mut Vec<SlowCase>) {
    let mut rng = Rng::stream(seed, 0xC08_0000 + sid);
    let mut opts = SpawnOpts::default();
    if mode.pin {
        opts.pin_cpu = Some((sid % 16) as usize);
    }
    if let Some(fp) = &mode.failpoints {
        opts.env.push(("WALLEYE_VERIF_FP".into(), format!("{};seed={};prob=70", fp, seed.wrapping_mul(17).wrapping_add(sid))));
    }
    if mode.ptdelay {
        // the unmodified binary with its threads held at the channel operations, at thread start
        // and at the standard-output entry points (a latency beyond the bound is re-measured solo
        // without delays before it counts, like every other slow case)
        opts.ptdelay = Some((*rng.pick(&[300u32, 1000]), seed.wrapping_mul(29).wrapping_add(sid)));
        opts.ptset = crate::bb::PtSet::Both;
    }
    let mut s = match Sess::start(bin, opts, false) {
        Ok(s) => s,
        Err(e) => {
            acc.inconclusive.push(format!("session start failed ({}): {}", mode.name, e));
            return;
        }
    };
    // the engine's one option (a log file in the scratch directory) is on in a third of the sessions
    if rng.chance(1, 3) {
        s.eng.send(*rng.pick(&["setoption name DebugLogLevel value Info", "setoption DebugLogLevel Info"]));
        acc.feature("session_with_log_file_switched_on");
    }
    for step in 0..steps {
        let terminal = step % 2 == 0;
        let (cmd, pos) = if terminal {
            let p = &terminals[rng.below(terminals.len() as u64) as usize];
            (format!("position fen {}", p.to_fen6(0, 1)), p.clone())
        } else {
            let h = &roots[rng.below(roots.len() as u64) as usize];
            (h.command(), h.end.clone())
        };
        s.eng.send(&cmd);
        s.cur = Some(pos.clone());
        let mut args = clock_args(&mut rng, pos.stm, 200);
        if terminal && rng.chance(1, 4) {
            // a finished game is answered at once whatever the clocks say, so the mover's clock
            // may be anything here: astronomical values (the slice computed from them exceeds
            // every machine type on the way) and hopelessly negative ones
            let (t, i) = if pos.stm == Color::White { ("wtime", "winc") } else { ("btime", "binc") };
            let v = *rng.pick(&["1000000000000000000000000", "340282366920938463463374607431768211456", "170141183460469231731687303715884105727", "18446744073709551616000", "9223372036854775808", "999999999999999999999999999999999999999999999", "-170141183460469231731687303715884105729"]);
            args = match rng.below(3) {
                0 => format!("{} {}", t, v),
                1 => format!("{} {} movestogo 1", t, v),
                _ => format!("{} 50 {} {}", t, i, v),
            };
            acc.feature("terminal_root_with_astronomical_mover_clock");
        }
        let (mut g, hang) = go_bounded(&mut s, &args);
        acc.evaluations += 1;
        let script: Vec<String> = s.eng.transcript.iter().filter(|e| e.dir == crate::bb::Dir::Sent).map(|e| e.line.clone()).collect();
        let case = json!({"kind": "session", "property": "C08", "mode": mode.name, "failpoints": mode.failpoints, "pinned": mode.pin, "script": script, "transcript_tail": s.eng.transcript_text(30)});
        let tag = format!("{}|{}", pos.to_fen(), g.args);
        if acc.distinct.insert(hash64(&format!("{}|{}|{}", mode.name, tag, sid))) {
            acc.feature(if terminal { if in_check(&pos, pos.stm) { "checkmate_root" } else { "stalemate_root" } } else { "non_terminal_root" });
            acc.feature(&format!("mode_{}", mode.name));
            if g.plan_ms == 0 {
                acc.feature("zero_slice");
            }
        }
        if step == 0 && sid < 2 {
            acc.sample(json!({"position": cmd, "go": g.args, "plan_ms": g.plan_ms as u64, "answer": g.bestmove.as_ref().map(|b| b.0.clone()), "latency_ms": g.latency_ms()}));
        }
        if let Some(why) = hang {
            acc.violation(
                format!("C08|hang|{}|{}", if terminal { "terminal" } else { "nonterminal" }, tag),
                format!("'{}' on {} ({}) is never answered: {}", g.args, pos.to_fen(), if terminal { if in_check(&pos, pos.stm) { "checkmate" } else { "stalemate" } } else { "non-terminal" }, why),
                case,
            );
            return;
        }
        let (text, _) = match &g.bestmove {
            Some(b) => b.clone(),
            None => {
                // still searching 10 s after the plan: decided by three solo re-runs after the sweep
                slow.push(SlowCase { position_cmd: cmd.clone(), go_args: g.args.clone(), plan_ms: g.plan_ms, latency_ms: f64::INFINITY, mode: mode.name.clone() });
                acc.count("unanswered_with_live_search_thread", 1);
                return;
            }
        };
        let lat = g.latency_ms().unwrap_or(0.0);
        acc.max("max_overhead_ms_x10", ((lat - g.plan_ms as f64).max(0.0) * 10.0) as u64);
        if lat > g.plan_ms as f64 + OVERHEAD_MS {
            slow.push(SlowCase { position_cmd: cmd.clone(), go_args: g.args.clone(), plan_ms: g.plan_ms, latency_ms: lat, mode: mode.name.clone() });
        }
        if terminal {
            if !is_null_move(&text) {
                acc.violation(format!("C08|terminal-answer|{}", tag), format!("'{}' on the terminal position {} answered 'bestmove {}' instead of a null move", g.args, pos.to_fen(), text), case.clone());
            }
        } else {
            match parse_mv(&text) {
                Some(m) if wellformed_move(&text) && legal_moves(&pos).contains(&m) => {}
                _ => acc.violation(format!("C08|illegal|{}|{}", tag, text), format!("'{}' on {} answered 'bestmove {}' which is not a legal move", g.args, pos.to_fen(), text), case.clone()),
            }
        }
        // still responsive
        let t0 = Instant::now();
        if !s.settle(&mut g, WATCHDOG) {
            if s.eng.exited().is_some() {
                acc.violation(format!("C08|died|{}", tag), format!("engine process ended after '{}' on {}; stderr: {}", g.args, pos.to_fen(), truncate(&s.eng.stderr_text(), 300)), case);
            } else if s.eng.thread_count() <= 1 {
                acc.violation(format!("C08|unresponsive|{}", tag), format!("no readyok within 10 s after '{}' on {} although no search is running", g.args, pos.to_fen()), case);
            } else {
                acc.inconclusive.push(format!("watchdog: no readyok after '{}' on {}", g.args, pos.to_fen()));
            }
            return;
        }
        acc.max("max_isready_ms", t0.elapsed().as_millis() as u64);
        if g.n_bestmove_lines != 1 {
            acc.violation(format!("C08|count|{}", tag), format!("{} bestmove lines for one '{}' on {}", g.n_bestmove_lines, g.args, pos.to_fen()), case);
        }
        // the engine's own answer ended the game: a further go (no new position) is a go on a
        // finished game and must be answered with a null move like any other
        if !terminal {
            if let Some(m) = parse_mv(&text).filter(|m| legal_moves(&pos).contains(m)) {
                let after = apply(&pos, m);
                if !has_legal_move(&after) {
                    s.cur = Some(after.clone());
                    let args2 = clock_args(&mut rng, after.stm, 200);
                    let (mut g2, hang2) = go_bounded(&mut s, &args2);
                    acc.evaluations += 1;
                    acc.feature("go_after_own_game_ending_move");
                    let script: Vec<String> = s.eng.transcript.iter().filter(|e| e.dir == crate::bb::Dir::Sent).map(|e| e.line.clone()).collect();
                    let case2 = json!({"kind": "session", "property": "C08", "mode": mode.name, "failpoints": mode.failpoints, "pinned": mode.pin, "script": script, "transcript_tail": s.eng.transcript_text(30)});
                    if let Some(why) = hang2 {
                        acc.violation(format!("C08|hang|after-own-mate|{}", tag), format!("after the engine's own {} ended the game on {}, a further '{}' is never answered: {}", m, pos.to_fen(), g2.args, why), case2);
                        return;
                    }
                    match &g2.bestmove {
                        Some((t, _)) if is_null_move(t) => {}
                        Some((t, _)) => acc.violation(format!("C08|terminal-answer|after-own-mate|{}", tag), format!("after the engine's own {} ended the game on {}, a further '{}' answered 'bestmove {}' instead of a null move", m, pos.to_fen(), g2.args, t), case2.clone()),
                        None => {
                            acc.count("unanswered_with_live_search_thread", 1);
                            return;
                        }
                    }
                    if !s.settle(&mut g2, WATCHDOG) {
                        if s.eng.exited().is_some() || s.eng.thread_count() <= 1 {
                            acc.violation(format!("C08|unresponsive|after-own-mate|{}", tag), format!("no readyok after a go on the game the engine's own {} had ended ({})", m, pos.to_fen()), case2);
                        }
                        return;
                    }
                }
            }
        }
    }
    acc.count("sessions_completed", 1);
}

/// Re-run a slow case alone, three times. Violation only if every attempt exceeds the bound.
pub fn solo_confirm(bin: &PathBuf, c: &SlowCase) -> Vec<f64> {
    let mut lats = Vec::new();
    for _ in 0..3 {
        if let Ok(mut s) = Sess::start(bin, SpawnOpts::default(), false) {
            s.eng.send(&c.position_cmd);
            let args = c.go_args.strip_prefix("go").unwrap_or(&c.go_args).trim().to_string();
            let g = s.go(&args, WATCHDOG);
            lats.push(g.latency_ms().unwrap_or(f64::INFINITY));
        }
    }
    lats
}

pub fn run(tier: Tier, seed: u64) -> i32 {
    let mut run = Run::new("C08", tier, seed, "exploration");
    run.rule = "evaluation = one `go` on the real binary with a planned slice s <= 200 ms (plus 12/36 go's with slices of 2.4-6.4 s on roots whose search ends early and roots searched to the deadline; clock settings with movestogo absent or >= 1), alternating terminal roots (checkmates and stalemates: sampled KQK/KRK/KPK/KRRK/KQPKP families with corner-biased kings, terminal positions met by oracle-driven games with full material, composed mates) and non-terminal roots. Checked: a bestmove arrives; on a terminal root it is `0000` or `(none)`, otherwise a legal move; isready is answered afterwards and the next position+go is served; when the engine's own answer ends the game (a quarter of the non-terminal roots are one move from mate or stalemate) a further go without a new position must be answered with a null move as well. Hang = no answer after s + 1.5 s AND /proc shows the search thread gone (immediate verdict) or the process ended; latency above s + 300 ms is confirmed by three solo re-runs before it counts; a watchdog expiry with a live search thread is inconclusive. Schedules: 8 and 32 engines in parallel, pinned to one CPU, hooked binary with failpoints (search thread start delayed up to 20 ms, sends delayed), unmodified binary under ptrace delay injection (threads held at channel operations, thread start and standard-output entry points). Non-trivial = every go; distinct by (mode, root, go line, session)".into();
    run.assumptions = vec![
        "unbounded 'eventually answers' is restated as the bound slice + 300 ms (solo-confirmed) and plan + 10 s watchdog".into(),
        "accepted null-move spellings: 0000 and (none)".into(),
    ];
    let plain = match bb::build_plain() {
        Ok(b) => b,
        Err(e) => {
            println!("INCONCLUSIVE {}", e);
            return 2;
        }
    };
    let hooked = match bb::build_hooked() {
        Ok(b) => b,
        Err(e) => {
            println!("INCONCLUSIVE {}", e);
            return 2;
        }
    };
    let mut roots = session_roots(seed ^ 8, tier.pick(100, 800));
    // roots one move before the end of the game (the engine's answer may end it, see run_session)
    {
        let mut rng = Rng::stream(seed, 0xC08_111);
        let want = roots.len() / 4;
        let mut got = 0;
        let mut tries = 0;
        while got < want && tries < 100_000 {
            tries += 1;
            let mats: &[(&[Kind], &[Kind])] = &[(&[Kind::Queen], &[]), (&[Kind::Rook], &[]), (&[Kind::Rook, Kind::Rook], &[]), (&[Kind::Queen, Kind::Pawn], &[Kind::Pawn]), (&[Kind::Queen], &[Kind::Rook])];
            let (w, b) = mats[rng.below(mats.len() as u64) as usize];
            if let Some(p) = super::c11::material_position(&mut rng, w, b, Color::White) {
                if legal_moves(&p).iter().any(|m| !has_legal_move(&apply(&p, *m))) {
                    roots.push(History { start: p.clone(), moves: vec![], end: p });
                    got += 1;
                }
            }
        }
    }
    {
        // capture-storm roots: every eighth non-terminal root has many mutually attacking queens
        let mut rng = Rng::stream(seed, 0x57_0A);
        let extra = roots.len() / 7;
        for _ in 0..extra {
            let p = workload::queen_storm_position(&mut rng);
            roots.push(History { start: p.clone(), moves: vec![], end: p });
        }
        roots.push(History { start: Pos::parse_fen("q2k2q1/1qnqn1qb/1n1P1n1b/2rnr2Q/1NQ1QN1Q/3Q3B/1QRQR1QB/Q2K2Q1 w - -").unwrap(), moves: vec![], end: Pos::parse_fen("q2k2q1/1qnqn1qb/1n1P1n1b/2rnr2Q/1NQ1QN1Q/3Q3B/1QRQR1QB/Q2K2Q1 w - -").unwrap() });
    }
    let terminals = terminal_positions(seed, tier.pick(300, 3000));
    run.set("terminal_positions", json!({"total": terminals.len(), "checkmates": terminals.iter().filter(|p| in_check(p, p.stm)).count(), "stalemates": terminals.iter().filter(|p| !in_check(p, p.stm)).count()}));
    if terminals.len() < 50 {
        println!("INCONCLUSIVE only {} terminal positions generated", terminals.len());
        return 2;
    }
    let steps = tier.pick(10, 20);
    let mut plan: Vec<(Mode, usize, usize)> = Vec::new();
    plan.push((Mode { name: "plain_par8".into(), hooked: false, pin: false, failpoints: None, ptdelay: false }, tier.pick(48, 720), 8));
    plan.push((Mode { name: "plain_par32".into(), hooked: false, pin: false, failpoints: None, ptdelay: false }, tier.pick(64, 768), 32));
    plan.push((Mode { name: "plain_pinned".into(), hooked: false, pin: true, failpoints: None, ptdelay: false }, tier.pick(16, 288), 8));
    if bb::ptdelay_tool(&plain).is_some() {
        plan.push((Mode { name: "plain_ptdelay".into(), hooked: false, pin: false, failpoints: None, ptdelay: true }, tier.pick(16, 192), 8));
    }
    for i in [0usize, 6, 5] {
        plan.push((Mode { name: format!("hooked_fp{}", i), hooked: true, pin: false, failpoints: Some(FAILPOINT_SETS[i].to_string()), ptdelay: false }, tier.pick(16, 192), 8));
    }
    let mut slow_all: Vec<SlowCase> = Vec::new();
    let mut sid_base = 0u64;
    for (mode, sessions, parallel) in plan {
        let bin = if mode.hooked { &hooked } else { &plain };
        let res = run_parallel(parallel, sessions, |i| {
            let mut acc = Acc::new();
            let mut slow = Vec::new();
            run_session(bin, &mode, &roots, &terminals, seed, sid_base + i as u64, steps, &mut acc, &mut slow);
            (acc, slow)
        });
        sid_base += sessions as u64;
        for (a, sl) in res {
            run.acc.merge(a, &["max_overhead_ms_x10", "max_isready_ms"]);
            slow_all.extend(sl);
        }
    }
    // long slices ---------------------------------------------------------------------------------
    // A lateness that grows with the slice (a polling interval derived from it, a back-off, a
    // rounding to coarse ticks) is invisible at slices of 200 ms. A few go's with slices of 2.4 to
    // 6.4 s, all at once: roots whose search ends long before the deadline (the I/O thread waits
    // alone) and roots that are searched to the end of the slice. Judged like the others:
    // slice + 300 ms, decided by three solo re-runs.
    {
        let n_long = tier.pick(12usize, 36);
        let slices: [u64; 6] = [2400, 3300, 4100, 4800, 5600, 6400];
        let quiet_roots = ["6k1/5ppp/8/8/8/8/8/R5K1 w - -", "7k/8/5K2/8/8/8/8/6Q1 w - -", "8/8/8/4k3/8/8/4P3/4K3 w - -", "r3k2r/p1ppqpb1/bn2pnp1/3PN3/1p2P3/2N2Q1p/PPPBBPPP/R3K2R w KQkq -", "6k1/5ppp/8/8/8/8/8/r5K1 b - -", "rnbqkbnr/pppppppp/8/8/8/8/PPPPPPPP/RNBQKBNR w KQkq -"];
        let res = run_parallel(n_long.min(12), n_long, |i| {
            let mut acc = Acc::new();
            let mut slow = Vec::new();
            let slice = slices[i % slices.len()] + (seed % 7) * 13;
            let fen = quiet_roots[(i / slices.len() + i) % quiet_roots.len()];
            let p = Pos::parse_fen(fen).unwrap();
            let mut s = match Sess::start(&plain, SpawnOpts::default(), false) {
                Ok(s) => s,
                Err(e) => {
                    acc.inconclusive.push(format!("session start failed: {}", e));
                    return (acc, slow);
                }
            };
            s.position_fen(&p);
            let clock = 100 + (slice as f64 / 0.8).round() as u64;
            let args = format!("wtime {} btime {} movestogo 1", clock, clock);
            let g = s.go(&args, WATCHDOG);
            acc.evaluations += 1;
            if acc.distinct.insert(hash64(&format!("long|{}|{}", fen, args))) {
                acc.feature("slice_of_seconds");
            }
            let lat = g.latency_ms().unwrap_or(f64::INFINITY);
            if lat.is_finite() {
                acc.max("max_overhead_ms_x10_long_slices", ((lat - g.plan_ms as f64).max(0.0) * 10.0) as u64);
            }
            if i < 2 {
                acc.sample(json!({"position": fen, "go": g.args, "plan_ms": g.plan_ms as u64, "latency_ms": g.latency_ms()}));
            }
            if lat > g.plan_ms as f64 + OVERHEAD_MS {
                slow.push(SlowCase { position_cmd: format!("position fen {}", p.to_fen6(0, 1)), go_args: g.args.clone(), plan_ms: g.plan_ms, latency_ms: lat, mode: "long_slice".into() });
            } else if !s.isready(WATCHDOG) {
                acc.violation(format!("C08|long-isready|{}", fen), format!("after '{}' on {} (answered) isready is not answered", g.args, fen), json!({"kind": "session", "property": "C08", "script": [format!("position fen {}", p.to_fen6(0, 1)), g.args, "isready"]}));
            }
            (acc, slow)
        });
        for (a, sl) in res {
            run.acc.merge(a, &["max_overhead_ms_x10_long_slices"]);
            // long-slice candidates go first in the confirmation queue
            for c in sl {
                slow_all.insert(0, c);
            }
        }
    }
    // solo confirmation of latency outliers (nothing else is running now)
    let mut outliers = Vec::new();
    // unanswered cases first (at most 3 of them, they cost 3 x (plan + 10 s) each)
    slow_all.sort_by(|a, b| b.latency_ms.partial_cmp(&a.latency_ms).unwrap_or(std::cmp::Ordering::Equal));
    let n_unanswered = slow_all.iter().filter(|c| c.latency_ms.is_infinite()).count();
    let take = 20usize.min(slow_all.len());
    let mut unanswered_done = 0;
    for c in slow_all.iter().take(take) {
        if c.latency_ms.is_infinite() {
            if unanswered_done >= 3 {
                continue;
            }
            unanswered_done += 1;
        }
        let lats = solo_confirm(&plain, c);
        let all_slow = !lats.is_empty() && lats.iter().all(|l| *l > c.plan_ms as f64 + OVERHEAD_MS);
        outliers.push(json!({"position": truncate(&c.position_cmd, 120), "go": c.go_args, "plan_ms": c.plan_ms as u64, "latency_ms": c.latency_ms, "mode": c.mode, "solo_latencies_ms": lats}));
        if all_slow && c.latency_ms.is_infinite() {
            run.acc.violation(
                format!("C08|unanswered|{}|{}", c.position_cmd, c.go_args),
                format!("'{}' after '{}' (plan {} ms) was not answered within plan + 10 s, and not in three solo re-runs on an otherwise idle machine either (the search thread keeps running)", c.go_args, truncate(&c.position_cmd, 120), c.plan_ms),
                json!({"kind": "session", "property": "C08", "script": [c.position_cmd, c.go_args]}),
            );
        } else if all_slow {
            run.acc.violation(
                format!("C08|late|{}|{}", c.position_cmd, c.go_args),
                format!("'{}' after '{}' answered {:.0} ms after the go (plan {} ms) and in three solo re-runs {:?} ms: always more than plan + {} ms", c.go_args, truncate(&c.position_cmd, 120), c.latency_ms, c.plan_ms, lats, OVERHEAD_MS),
                json!({"kind": "session", "property": "C08", "script": [c.position_cmd, c.go_args]}),
            );
        }
    }
    run.set("slow_outliers", json!(outliers));
    run.set("slow_outliers_total", json!(slow_all.len()));
    run.set("unanswered_cases", json!(n_unanswered));
    run.floor_distinct = 100;
    run.finish()
}
