//! Virtual-clock monitors: C07 (expiry-point fault enumeration), C12 (exact shallow value),
//! C18 (info lines), sharing the per-run checks.

use super::rules_driver::truncate;
use super::searchlib::*;
use crate::board::BoardState;
use crate::draw_table::DrawTable;
use crate::ev::{Acc, Run, Tier};
use crate::glue::*;
use crate::oracle::*;
use crate::par;
use crate::rng::{hash64, Rng};
use crate::workload;
use crate::zobrist::ZobristHasher;
use serde_json::{json, Value};
use std::collections::{BTreeSet, HashMap};

/// A root position with its history, loaded through the real `position` handler function.
pub struct Root {
    pub hist: History,
    pub board: BoardState,
    pub table: DrawTable,
    pub table_entries: Vec<(u64, u32)>,
    pub legal: Vec<Mv>,
    pub succ_fields: HashMap<Mv, Fields>,
}

pub fn make_root(hist: History, h: &ZobristHasher) -> Result<Root, String> {
    let (board, table) = load_history(&hist, h)?;
    let legal = legal_moves(&hist.end);
    let mut succ_fields = HashMap::new();
    for m in &legal {
        succ_fields.insert(*m, fields_of_pos(&apply(&hist.end, *m)));
    }
    let table_entries = table_entries(&table);
    Ok(Root { hist, board, table, table_entries, legal, succ_fields })
}

pub fn root_case(prop: &str, root: &Root, depth: u8, k: Option<u64>) -> Value {
    json!({"kind": "search", "property": prop, "position_command": root.hist.command(), "root_fen": root.hist.end.to_fen(), "depth_limit": depth, "expiry_index": k})
}

/// Positions for the search monitors: library + opening walks + synthesised, non-terminal, with
/// and without history (cycles give counts of 2 in the table).
pub fn search_roots(seed: u64, n: usize, h: &ZobristHasher, swings: bool) -> Vec<Root> {
    let starts = workload::start_positions(seed, 40).unwrap_or_default();
    let mut rng = Rng::stream(seed, 0x5EA7C4);
    let mut out = Vec::new();
    let mut i = 0usize;
    let mut guard = 0;
    while out.len() < n && guard < n * 20 {
        guard += 1;
        let base = match i % 6 {
            0 | 1 => starts[(i / 2) % starts.len()].clone(),
            2 => workload::synth_position(&mut rng),
            3 if swings => {
                if rng.chance(1, 2) {
                    workload::swing_position(&mut rng)
                } else {
                    workload::ep_horizon_position(&mut rng)
                }
            }
            4 if swings => {
                if rng.chance(1, 2) {
                    workload::swing_position(&mut rng)
                } else {
                    workload::queen_storm_position(&mut rng)
                }
            }
            // extreme material (5-9 queens against a nearly bare king): evaluations beyond 10 000
            5 if swings && i % 12 == 5 => match crate::mon::c14::extreme_material_position(&mut rng) {
                Some(p) => p,
                None => starts[rng.below(starts.len() as u64) as usize].clone(),
            },
            _ => starts[rng.below(starts.len() as u64) as usize].clone(),
        };
        i += 1;
        if !has_legal_move(&base) {
            continue;
        }
        let hist = match i % 3 {
            0 => History { start: base.clone(), moves: vec![], end: base },
            1 => make_history(&base, &mut rng, 10, 0, 0),
            _ => {
                let cycles = 1 + rng.below(2) as usize;
                let tail = rng.below(3) as usize;
                make_history(&base, &mut rng, 6, cycles, tail)
            }
        };
        if !has_legal_move(&hist.end) || !is_legal_position(&hist.end) {
            continue;
        }
        if let Ok(r) = make_root(hist, h) {
            out.push(r);
        }
    }
    out
}

/// Roots right behind a repetition: a sparse position with clearly unbalanced material occurred
/// twice (one shuffle cycle), then one or two more reversible plies were played. Inside a
/// depth-3 tree the line "move, take-back, move back" then reaches the twice-seen position a
/// third time, so a repetition draw (0) sits next to values far from 0 - the place where the
/// window handed to a sub-search, the re-search test and the value a node returns must agree.
pub fn repetition_edge_roots(seed: u64, n: usize, h: &ZobristHasher) -> Vec<Root> {
    let mut rng = Rng::stream(seed, 0x9E9E7);
    let mut out = Vec::new();
    let mats: &[(&[Kind], &[Kind])] = &[
        (&[Kind::Queen], &[]), (&[Kind::Rook], &[]), (&[Kind::Queen], &[Kind::Knight]), (&[Kind::Rook, Kind::Bishop], &[Kind::Knight]),
        (&[Kind::Queen, Kind::Pawn], &[Kind::Rook]), (&[Kind::Rook, Kind::Rook], &[Kind::Bishop, Kind::Pawn]), (&[Kind::Queen, Kind::Knight], &[Kind::Pawn, Kind::Pawn]),
        (&[Kind::Rook, Kind::Knight, Kind::Pawn], &[Kind::Bishop]), (&[Kind::Queen, Kind::Rook], &[Kind::Queen]), (&[Kind::Bishop, Kind::Knight, Kind::Pawn, Kind::Pawn], &[Kind::Pawn]),
    ];
    let mut tries = 0;
    while out.len() < n && tries < n * 60 {
        tries += 1;
        let (a, b) = mats[rng.below(mats.len() as u64) as usize];
        let (w, bl) = if rng.chance(1, 2) { (a, b) } else { (b, a) };
        let stm = if rng.chance(1, 2) { Color::White } else { Color::Black };
        let q = match super::c11::material_position(&mut rng, w, bl, stm) {
            Some(p) => p,
            None => continue,
        };
        if in_check(&q, q.stm) {
            continue;
        }
        let cyc = match find_cycle(&q, &mut rng) {
            Some(c) => c,
            None => continue,
        };
        let mut moves: Vec<Mv> = cyc.to_vec();
        let mut p = q.clone();
        for m in &moves {
            p = apply(&p, *m);
        }
        // one or two more reversible plies (no pawn move, no capture, no castling)
        let extra = 1 + rng.below(2) as usize;
        let mut ok = true;
        for _ in 0..extra {
            let ms: Vec<Mv> = legal_moves(&p).into_iter().filter(|m| !is_capture(&p, *m) && !matches!(p.sq[m.from as usize], Some((_, Kind::Pawn)))).collect();
            if ms.is_empty() {
                ok = false;
                break;
            }
            let m = *rng.pick(&ms);
            moves.push(m);
            p = apply(&p, m);
        }
        if !ok || !has_legal_move(&p) || !is_legal_position(&p) {
            continue;
        }
        if let Ok(r) = make_root(History { start: q, moves, end: p }, h) {
            out.push(r);
        }
    }
    out
}

/// Roots with exactly one or two legal moves: sparse endings in check, rich positions in check
/// with a single reply (the forced-reply shapes of C10), near-stalemates.
pub fn few_move_roots(seed: u64, n: usize, h: &ZobristHasher) -> Vec<Root> {
    let mut rng = Rng::stream(seed, 0xF0CED);
    let mut out = Vec::new();
    let mats: &[(&[Kind], &[Kind])] = &[(&[Kind::Queen], &[]), (&[Kind::Rook], &[]), (&[Kind::Queen], &[Kind::Pawn]), (&[Kind::Rook, Kind::Rook], &[Kind::Knight]), (&[Kind::Queen, Kind::Bishop], &[Kind::Pawn, Kind::Pawn])];
    let mut tries = 0;
    while out.len() < n && tries < 400_000 {
        tries += 1;
        let cand = if tries % 3 == 0 {
            // X to move with a single reply, plenty of material on the board
            super::c10::forced_reply_cycle(&mut rng).map(|(c, cyc)| {
                let mut p = c;
                for m in &cyc[..3] {
                    p = apply(&p, *m);
                }
                p
            })
        } else {
            let (w, b) = mats[rng.below(mats.len() as u64) as usize];
            super::c11::material_position(&mut rng, w, b, Color::Black)
        };
        if let Some(p) = cand {
            let nl = legal_moves(&p).len();
            if nl == 1 || (nl == 2 && rng.chance(1, 3)) {
                if let Ok(r) = make_root(History { start: p.clone(), moves: vec![], end: p }, h) {
                    out.push(r);
                }
            }
        }
    }
    out
}

/// Roots on which iterative deepening gets very deep within an ordinary time slice.
pub fn deep_iteration_roots(seed: u64, n: usize, h: &ZobristHasher) -> Vec<Root> {
    let mut rng = Rng::stream(seed, 0xDEE9);
    let mut out = Vec::new();
    let bases = [
        "8/8/8/3k4/8/3K4/3Q4/8 w - -", "4k3/8/8/8/8/8/3Q4/4K3 b - -", "4k3/8/8/8/8/8/3R4/4K3 b - -", "4K3/8/8/8/8/2rr4/8/4k3 w - -",
        "8/8/8/3k4/8/3K4/3R4/8 w - -", "8/8/8/3k4/8/3K4/8/8 w - -", "7k/8/4K3/8/8/8/8/6Q1 w - -", "6k1/5ppp/8/8/8/8/5PPP/3R2K1 w - -",
        "8/8/8/8/8/k7/p7/K7 b - -", "k7/p7/8/8/8/8/P7/K7 w - -", "8/8/4k3/8/8/4K3/4P3/8 w - -", "2k5/ppp5/8/8/8/8/PPP2Q2/2K4R b - -",
    ];
    let mut guard = 0;
    while out.len() < n && guard < n * 10 {
        guard += 1;
        let base = Pos::parse_fen(bases[rng.below(bases.len() as u64) as usize]).unwrap();
        // some free play, then one or two shuffle cycles so that repetition draws are on offer
        let mut hist = make_history(&base, &mut rng, 12, 0, 0);
        let cycles = if rng.chance(1, 5) { 0 } else { 1 + rng.below(3) as usize };
        if cycles > 0 {
            if let Some(cyc) = find_cycle(&hist.end, &mut rng) {
                let mut p = hist.end.clone();
                for _ in 0..cycles {
                    for m in cyc {
                        hist.moves.push(m);
                        p = apply(&p, m);
                    }
                }
                // stop in the middle of the last cycle now and then: the side to move can then repeat at once
                if rng.chance(2, 3) {
                    hist.moves.pop();
                    let mut q = hist.start.clone();
                    for m in &hist.moves {
                        q = apply(&q, *m);
                    }
                    p = q;
                }
                hist.end = p;
            }
        }
        if !has_legal_move(&hist.end) {
            continue;
        }
        if let Ok(r) = make_root(hist, h) {
            out.push(r);
        }
    }
    out
}

/// Checks that apply to any single run of the search (used by C07 and C18).
pub struct RunFacts {
    pub events: Vec<NEv>,
    pub infos: Vec<Info>,
}

pub fn check_run(prop: &str, root: &Root, depth: u8, k: Option<u64>, r: &SearchRun, acc: &mut Acc) -> RunFacts {
    let case = root_case(prop, root, depth, k);
    let tag = format!("{}|D{}|k{:?}", root.hist.end.to_fen(), depth, k);
    let events = normalise(&r.report.events);
    let mut infos = Vec::new();
    if prop == "C07" {
        if let Some(p) = &r.panic {
            acc.violation(format!("C07|panic|{}", tag), format!("search panicked ({}; expiry at clock query {:?}, iterations <= {}): {}", root.hist.end.to_fen(), k, depth, p), case.clone());
        }
        if r.table_after != root.table_entries {
            acc.violation(
                format!("C07|table|{}", tag),
                format!("repetition record changed by the search on {} (expiry {:?}, depth limit {}): {} entries before, {} after ({} of them with a zero count); first difference {:?}", root.hist.end.to_fen(), k, depth, root.table_entries.len(), r.table_after.len(),
                    r.table_after.iter().filter(|e| e.1 == 0).count(), r.table_after.iter().zip(root.table_entries.iter()).find(|(a, b)| a != b)),
                case.clone(),
            );
        }
        // every board handed back is a legal successor of the root
        for e in &r.report.events {
            if let crate::verif::Ev::Send(b, _) = e {
                acc.evaluations += 1;
                match mv_of(b) {
                    Ok(m) => match root.succ_fields.get(&m) {
                        Some(want) => {
                            let got = fields_of(b);
                            if &got != want {
                                acc.violation(format!("C07|sent-board|{}|{}", tag, m), format!("{}: board handed back for {} is not the position after that move: {}", root.hist.end.to_fen(), m, got.diff(want)), case.clone());
                            }
                        }
                        None => acc.violation(format!("C07|illegal|{}|{}", tag, m), format!("{}: search handed back {} which is not a legal move (expiry {:?})", root.hist.end.to_fen(), m, k), case.clone()),
                    },
                    Err(e) => acc.violation(format!("C07|descriptor|{}", tag), format!("{}: handed back a board without a usable move descriptor: {}", root.hist.end.to_fen(), e), case.clone()),
                }
            }
        }
        // the hook stands in front of every send; what it announced must be exactly what arrived on
        // the channel, in that order (a send that is announced but never made - e.g. compiled out -
        // would otherwise go unnoticed, because the monitors read the hook's record)
        if r.panic.is_none() {
            let announced: Vec<Fields> = r.report.events.iter().filter_map(|e| if let crate::verif::Ev::Send(b, _) = e { Some(fields_of(b)) } else { None }).collect();
            let arrived: Vec<Fields> = r.sent.iter().map(fields_of).collect();
            if announced != arrived {
                acc.violation(
                    format!("C07|channel|{}", tag),
                    format!("{}: the search announced {} move(s) to its hook but {} arrived on the channel to the I/O thread (expiry {:?}, depth limit {}): announced [{}], arrived [{}]", root.hist.end.to_fen(), announced.len(), arrived.len(), k, depth,
                        r.report.events.iter().filter_map(|e| if let crate::verif::Ev::Send(b, _) = e { mv_of(b).ok().map(|m| m.to_string()) } else { None }).collect::<Vec<_>>().join(" "),
                        r.sent.iter().filter_map(|b| mv_of(b).ok().map(|m| m.to_string())).collect::<Vec<_>>().join(" ")),
                    case.clone(),
                );
            }
        }
        let n_send = events.iter().filter(|e| matches!(e, NEv::Send { .. })).count();
        let n_fb = events.iter().filter(|e| matches!(e, NEv::Send { fallback: true, .. })).count();
        if !root.legal.is_empty() && n_send == 0 && r.panic.is_none() {
            acc.violation(format!("C07|nothing|{}", tag), format!("{}: search returned without handing back any move (expiry {:?}, depth limit {})", root.hist.end.to_fen(), k, depth), case.clone());
        }
        if n_fb > 1 || (n_fb == 1 && n_send > 1) {
            acc.violation(format!("C07|fallback|{}", tag), format!("{}: fallback move sent although another move was handed back ({} sends, {} fallback)", root.hist.end.to_fen(), n_send, n_fb), case.clone());
        }
    }
    // info lines --------------------------------------------------------------------------------
    let mut last_depth = 0u64;
    let mut last_key: Option<(u64, i64)> = None;
    for e in &r.report.events {
        if let crate::verif::Ev::Line(l) = e {
            if !l.starts_with("info") {
                continue;
            }
            acc.count("info_lines", 1);
            let lcase = json!({"kind": "search", "property": prop, "position_command": root.hist.command(), "root_fen": root.hist.end.to_fen(), "depth_limit": depth, "expiry_index": k, "line": l});
            match parse_info(l, true) {
                Err(why) => {
                    if prop == "C18" {
                        acc.violation(format!("C18|form|{}|{}", tag, truncate(l, 80)), format!("malformed info line {:?} ({}) on {}", l, why, root.hist.end.to_fen()), lcase);
                    }
                }
                Ok(info) => {
                    let key = score_key(&info.score);
                    let sentinel = matches!(info.score, Score::Cp(x) if x.abs() >= SENTINEL as i64) || key.abs() > MATE as i64;
                    if sentinel && (prop == "C07" || prop == "C18") {
                        acc.violation(format!("{}|sentinel|{}", prop, tag), format!("{}: info line reports a score outside the mate range (aborted-search sentinel leaked): {:?} (expiry {:?})", root.hist.end.to_fen(), l, k), lcase.clone());
                    }
                    if prop == "C18" {
                        if info.depth < 1 || info.depth < last_depth {
                            acc.violation(format!("C18|depth|{}", tag), format!("{}: depth {} after depth {} in one search: {:?}", root.hist.end.to_fen(), info.depth, last_depth, l), lcase.clone());
                        }
                        if info.score == Score::Mate(0) {
                            acc.violation(format!("C18|mate0|{}", tag), format!("{}: 'mate 0' reported: {:?}", root.hist.end.to_fen(), l), lcase.clone());
                        }
                        if let Score::Cp(x) = info.score {
                            if x.abs() > MATE as i64 {
                                acc.violation(format!("C18|cp-range|{}", tag), format!("{}: cp score beyond the mate magnitude: {:?}", root.hist.end.to_fen(), l), lcase.clone());
                            }
                        }
                        match parse_mv(&info.pv[0]) {
                            Some(m) if root.legal.iter().any(|x| x.from == m.from && x.to == m.to && (m.promo.is_none() || m.promo == x.promo)) => {}
                            _ => acc.violation(format!("C18|pv|{}|{}", tag, info.pv[0]), format!("{}: first PV move {} is not legal in the searched position: {:?}", root.hist.end.to_fen(), info.pv[0], l), lcase.clone()),
                        }
                        if let Some((d, prev)) = last_key {
                            if d == info.depth && key <= prev {
                                acc.violation(format!("C18|monotone|{}", tag), format!("{}: within depth {} the score did not strictly increase ({} after {}): {:?}", root.hist.end.to_fen(), d, key, prev, l), lcase.clone());
                            }
                        }
                    }
                    last_depth = last_depth.max(info.depth);
                    last_key = Some((info.depth, key));
                    infos.push(info);
                }
            }
        }
    }
    RunFacts { events, infos }
}

/// S_k (without a trailing fallback send) must be a prefix of S_inf; a fallback must be the first
/// send of S_inf.
pub fn check_prefix(root: &Root, depth: u8, k: u64, sk: &[NEv], sinf: &[NEv], acc: &mut Acc) {
    let case = root_case("C07", root, depth, Some(k));
    let tag = format!("{}|D{}|k{}", root.hist.end.to_fen(), depth, k);
    // Iteration-start markers are hook bookkeeping, not reported improvements: an iteration may
    // start after the clock expired during the last root move of the previous one (the run then
    // returns at the next clock check). Only sends and info lines are compared.
    let mut body: Vec<NEv> = sk.iter().filter(|e| !matches!(e, NEv::Iter(_))).cloned().collect();
    let sinf: Vec<NEv> = sinf.iter().filter(|e| !matches!(e, NEv::Iter(_))).cloned().collect();
    let sinf = &sinf[..];
    let mut fb: Option<String> = None;
    if let Some(NEv::Send { mv, fallback: true }) = body.last().cloned() {
        fb = Some(mv);
        body.pop();
    }
    let is_prefix = body.len() <= sinf.len() && body.iter().zip(sinf.iter()).all(|(a, b)| a == b);
    if !is_prefix {
        let at = body.iter().zip(sinf.iter()).position(|(a, b)| a != b).unwrap_or(sinf.len().min(body.len()));
        acc.violation(
            format!("C07|prefix|{}", tag),
            format!(
                "{}: with the allowance expiring at clock query {} (iterations <= {}) the reported sequence is not a prefix of the unaborted one; first difference at event {}: got {:?}, unaborted run has {:?}",
                root.hist.end.to_fen(), k, depth, at, nev_text(&body[at.min(body.len().saturating_sub(1))..body.len().min(at + 1)]), nev_text(&sinf[at.min(sinf.len().saturating_sub(1))..sinf.len().min(at + 1)])
            ),
            case.clone(),
        );
    }
    if let Some(mv) = fb {
        let first = sinf.iter().find_map(|e| if let NEv::Send { mv, .. } = e { Some(mv.clone()) } else { None });
        if let Some(first) = first {
            if first != mv {
                acc.violation(format!("C07|fallback-move|{}", tag), format!("{}: fallback move {} is not the first move of the root ordering ({})", root.hist.end.to_fen(), mv, first), case);
            }
        }
    }
}

pub fn choose_ks(q: u64, rinf: &SearchRun, rng: &mut Rng, all_below: u64, random_n: u64) -> (Vec<u64>, bool) {
    if q <= all_below {
        return ((0..=q).collect(), true);
    }
    let mut s: BTreeSet<u64> = BTreeSet::new();
    for k in 0..=150.min(q) {
        s.insert(k);
    }
    for k in q.saturating_sub(80)..=q {
        s.insert(k);
    }
    // around every accepted improvement / info line / iteration start of the unaborted run
    for &eq in &rinf.report.event_queries {
        for d in 0..=3u64 {
            if eq >= d {
                s.insert(eq - d);
            }
            if eq + d <= q {
                s.insert(eq + d);
            }
        }
    }
    // at and just after the entry of null-move children
    let ne = &rinf.report.null_entry_queries;
    let stride = (ne.len() / 60).max(1);
    for (i, &nq) in ne.iter().enumerate() {
        if i % stride == 0 {
            s.insert(nq.min(q));
            s.insert((nq + 1).min(q));
            s.insert((nq + 2).min(q));
        }
    }
    for _ in 0..random_n {
        s.insert(rng.below(q + 1));
    }
    (s.into_iter().collect(), false)
}

pub fn run_c07(tier: Tier, seed: u64) -> i32 {
    let mut run = Run::new("C07", tier, seed, "fault_enumeration");
    run.rule = "fault = the index k of the clock query at which the allowance expires (thread-local virtual clock substituted in utils::out_of_time; monotone like the real clock). For each root (position + history loaded through the real position handler) and iteration limit D the unaborted run R_inf is recorded (Q clock queries, event list of sends and info lines), then R_k is run for every k in [0,Q] when Q is small, otherwise for k in [0,150], the last 80, every k within 3 of an accepted improvement / info line / iteration start, k at and after the entry of (a sample of) null-move children, and seeded random k. evaluation = one run R_k (or one handed-back board). Roots with exactly one or two legal moves (single replies to a check in sparse and in rich positions) are part of the root set. Checkmated and stalemated roots are run with every expiry index 0..Q+2 as well (nothing may be handed back, nothing may panic). Non-trivial = 0 < k < Q (expiry strictly inside the search) or an expiry on a terminal root; distinct by (root, D, k)".into();
    run.assumptions = vec![
        "the virtual clock can expire between any two consecutive queries and never un-expires, exactly like the monotonic Instant it replaces; it cannot create an execution the real clock could not".into(),
        "repetition record equality is exact: an entry left behind with a zero count is a difference".into(),
        "S_k is compared with S_inf after removing each line's time field".into(),
        "the two-thread schedule clause (send after the receiver is gone) is observed on the hooked binary under failpoints in the same check (section 'schedules' of the evidence)".into(),
    ];
    let h = ZobristHasher::create_zobrist_hasher();
    let t_phase = std::time::Instant::now();
    let n_roots = tier.pick(80usize, 800);
    let mut roots = search_roots(seed, n_roots, &h, false);
    // roots with exactly one or two legal moves (a single reply to a check, a near-stalemate):
    // the root loop's special cases - first move, last move, nothing accepted yet - coincide there
    {
        let few = few_move_roots(seed, tier.pick(16, 120), &h);
        run.acc.count("roots_with_one_or_two_legal_moves", few.len() as u64);
        roots.extend(few);
    }
    let all_below = tier.pick(1200u64, 5000);
    let random_n = tier.pick(150u64, 500);
    // jobs: (root, D)
    let mut jobs: Vec<(usize, u8)> = Vec::new();
    for (i, r) in roots.iter().enumerate() {
        let pieces = r.hist.end.sq.iter().filter(|x| x.is_some()).count();
        let ds: Vec<u8> = if pieces <= 6 { vec![2, 4, 5] } else if pieces <= 14 { vec![1, 3, 4] } else { vec![2, 4] };
        for d in ds {
            jobs.push((i, d));
        }
    }
    // stage 1: the unaborted run of every (root, D) and the expiry indices to try
    let stage1 = par::par_map(jobs.len(), |j| {
        let (ri, d) = jobs[j];
        let root = &roots[ri];
        let mut acc = Acc::new();
        let mut rng = Rng::stream(seed, 7000 + j as u64);
        let rinf = run_search(&root.board, &root.table, None, d);
        acc.evaluations += 1;
        let finf = check_run("C07", root, d, None, &rinf, &mut acc);
        let q = rinf.report.queries;
        acc.count("sum_clock_queries", q);
        acc.max("max_ply_seen", rinf.report.max_ply.max(0) as u64);
        acc.count("null_move_children_in_unaborted_runs", rinf.report.null_entry_queries.len() as u64);
        if !root.hist.moves.is_empty() {
            acc.feature("history_present");
        }
        if j < 3 {
            acc.sample(json!({"position_command": truncate(&root.hist.command(), 200), "depth_limit": d, "clock_queries": q, "unaborted_events": nev_text(&finf.events).into_iter().take(6).collect::<Vec<_>>()}));
        }
        if rinf.panic.is_some() {
            return (acc, finf, Vec::new(), BTreeSet::new(), q);
        }
        let (ks, all) = choose_ks(q, &rinf, &mut rng, all_below, random_n);
        if all {
            acc.count("roots_enumerated_exhaustively", 1);
        }
        let null_set: BTreeSet<u64> = rinf.report.null_entry_queries.iter().copied().collect();
        (acc, finf, ks, null_set, q)
    });
    // stage 2: the aborted runs, in chunks so that one expensive root does not serialise the tail
    let mut chunks: Vec<(usize, usize, usize)> = Vec::new();
    for (j, s1) in stage1.iter().enumerate() {
        let n = s1.2.len();
        let mut a = 0;
        while a < n {
            let b = (a + 24).min(n);
            chunks.push((j, a, b));
            a = b;
        }
    }
    let results = par::par_map(chunks.len(), |c| {
        let (j, a, b) = chunks[c];
        let (ri, d) = jobs[j];
        let root = &roots[ri];
        let (_, finf, ks, null_set, q) = &stage1[j];
        let mut acc = Acc::new();
        for &k in &ks[a..b] {
            let rk = run_search(&root.board, &root.table, Some(k), d);
            acc.evaluations += 1;
            acc.count("runs_rk", 1);
            let fk = check_run("C07", root, d, Some(k), &rk, &mut acc);
            check_prefix(root, d, k, &fk.events, &finf.events, &mut acc);
            if k > 0 && k < *q {
                acc.distinct.insert(hash64(&format!("{}|{}|{}", root.hist.command(), d, k)));
                acc.feature(&format!("expiry_inside_search_D{}", d));
                if null_set.contains(&k) {
                    acc.feature("expiry_at_null_move_child_entry");
                }
            }
            if fk.events.iter().any(|e| matches!(e, NEv::Send { fallback: true, .. })) {
                acc.feature("fallback_send_observed");
            }
        }
        acc
    });
    for a in results {
        run.acc.merge(a, &["max_ply_seen"]);
    }
    for (a, ..) in stage1 {
        run.acc.merge(a, &["max_ply_seen"]);
    }
    run.set("roots", json!(roots.len()));
    let t_enum = t_phase.elapsed().as_secs_f64();
    // Deep iterations: roots whose iterations are cheap (a repetition draw is available to a
    // lost side, a forced mate, bare kings) are searched with an iteration limit of 99 and the
    // allowance expiring after a budget of clock queries, so that the per-ply tables and the
    // null-move ply offset are exercised at iteration depths a time slice really reaches on
    // such positions. Same checks as any other run (no panic, legal sends, record restored).
    let deep = deep_iteration_roots(seed, tier.pick(200, 2000), &h);
    let budget = tier.pick(150_000u64, 600_000);
    let results = par::par_map(deep.len(), |j| {
        let root = &deep[j];
        let mut acc = Acc::new();
        let r = run_search(&root.board, &root.table, Some(budget), 99);
        acc.evaluations += 1;
        acc.count("deep_iteration_runs", 1);
        acc.max("deep_max_iteration_reached", r.report.depth_started as u64);
        acc.max("deep_max_ply_seen", r.report.max_ply.max(0) as u64);
        if r.report.depth_started >= 30 {
            acc.feature("iteration_30_or_deeper_reached");
            acc.distinct.insert(hash64(&format!("deep|{}", root.hist.command())));
        }
        if j < 2 {
            acc.sample(json!({"deep_iteration_root": truncate(&root.hist.command(), 200), "iterations_reached": r.report.depth_started, "max_ply_seen": r.report.max_ply, "clock_queries": r.report.queries}));
        }
        check_run("C07", root, 99, Some(budget), &r, &mut acc);
        acc
    });
    for a in results {
        run.acc.merge(a, &["max_ply_seen", "deep_max_iteration_reached", "deep_max_ply_seen"]);
    }
    // Terminal roots (checkmate, stalemate): the allowance can expire there too - during the
    // empty iterations - and the search must end quietly: no panic, nothing handed back (there
    // is no legal move), record untouched.
    let terms = super::c08::terminal_positions(seed, tier.pick(60, 600));
    let results = par::par_map(terms.len(), |j| {
        let mut acc = Acc::new();
        let p = &terms[j];
        let hist = History { start: p.clone(), moves: Vec::new(), end: p.clone() };
        let root = match make_root(hist, &h) {
            Ok(r) => r,
            Err(e) => {
                acc.inconclusive.push(format!("terminal root {} could not be loaded: {}", p.to_fen(), e));
                return acc;
            }
        };
        let rinf = run_search(&root.board, &root.table, None, 99);
        acc.evaluations += 1;
        check_run("C07", &root, 99, None, &rinf, &mut acc);
        let q = rinf.report.queries;
        acc.count("terminal_roots", 1);
        acc.max("terminal_root_max_clock_queries", q);
        for k in 0..=(q + 2).min(130) {
            let rk = run_search(&root.board, &root.table, Some(k), 99);
            acc.evaluations += 1;
            acc.count("terminal_root_runs", 1);
            acc.distinct.insert(hash64(&format!("term|{}|{}", p.to_fen(), k)));
            acc.feature("expiry_on_terminal_root");
            check_run("C07", &root, 99, Some(k), &rk, &mut acc);
        }
        acc
    });
    for a in results {
        run.acc.merge(a, &["max_ply_seen", "terminal_root_max_clock_queries"]);
    }
    let t_deep = t_phase.elapsed().as_secs_f64();
    super::timed::c07_schedules(&mut run);
    let t_sched = t_phase.elapsed().as_secs_f64();
    run.set("phase_seconds", json!({"enumeration": t_enum, "deep_iterations": t_deep - t_enum, "schedules_blackbox": t_sched - t_deep}));
    run.floor_distinct = 1000;
    run.finish()
}

// ------------------------------------------------------------------------------------------------
// C12
// ------------------------------------------------------------------------------------------------

pub fn run_c12(tier: Tier, seed: u64) -> i32 {
    let mut run = Run::new("C12", tier, seed, "exploration");
    run.rule = "evaluation = one (root, depth d in 1..3) comparison: the score on the last info line of iteration d of the real search (virtual clock: iterations 1..3 complete, iteration 4 never starts) against the exact minimax value computed by a heuristic-free fail-soft alpha-beta over the engine's own generate_moves/get_evaluation/is_check/DrawTable (check extension, capture quiescence, mate and repetition scoring as the only leaf rules), plus the reference value of the move standing as best when depth d completed. Roots: library, opening walks, synthesised positions, each with and without a game history in the repetition record; plus thousands of sparse roots with unbalanced material one or two reversible plies after a position that occurred twice (a repetition draw next to values far from zero inside the depth-3 tree). Non-trivial = every compared (root,d); distinct by (position command, d)".into();
    run.assumptions = vec![
        "alpha-beta with a full root window returns the exact minimax value (theorem); the reference is cross-checked in every run against an un-pruned minimax on small trees".into(),
        "score mate N is compared through the set of internal values that print as N".into(),
        "positions whose reference exceeds the node budget are counted as skipped_budget, not decided".into(),
    ];
    let h = ZobristHasher::create_zobrist_hasher();
    let n_roots = tier.pick(800usize, 8000);
    let roots = search_roots(seed, n_roots, &h, true);
    let budget = tier.pick(3_000_000u64, 30_000_000);
    let results = par::par_map(roots.len(), |j| {
        let mut acc = Acc::new();
        c12_check_root(&roots[j], &h, budget, j < 2, &mut acc);
        acc
    });
    for a in results {
        run.acc.merge(a, &[]);
    }
    // right behind a repetition, unbalanced sparse material: cheap trees, many of them
    let edge = repetition_edge_roots(seed, tier.pick(6000usize, 60000), &h);
    let results = par::par_map(edge.len(), |j| {
        let mut acc = Acc::new();
        c12_check_root(&edge[j], &h, budget, false, &mut acc);
        acc.feature("root_one_or_two_reversible_plies_after_a_position_seen_twice");
        acc
    });
    for a in results {
        run.acc.merge(a, &[]);
    }
    run.floor_distinct = 100;
    run.finish()
}


/// C12 for one root: depths 1..3 of the real search against the reference.
pub fn c12_check_root(root: &Root, h: &ZobristHasher, budget: u64, sample: bool, acc: &mut Acc) {
        // self-test of the reference on small trees (depth 1-2 of sparse positions)
        let pieces = root.hist.end.sq.iter().filter(|x| x.is_some()).count();
        if pieces <= 8 {
            let mut rs = RefSearch::new(h, 5_000_000);
            let mut t = root.table.clone();
            let ab = par::catch(|| rs.root(&root.board, 2, &root.table).0);
            let mut rs2 = RefSearch::new(h, u64::MAX);
            let mm = par::catch(|| {
                let moves = crate::move_generation::generate_moves(&root.board, crate::move_generation::MoveGenerationMode::AllMoves, h);
                moves.iter().map(|m| -rs2.minimax(m, 1, 1, &mut t)).max().unwrap_or(0)
            });
            acc.count("reference_selftests", 1);
            if let (Ok(a), Ok(m)) = (&ab, &mm) {
                if a != m && !rs.over_budget {
                    acc.inconclusive.push(format!("reference alpha-beta ({}) disagrees with un-pruned minimax ({}) on {}", a, m, root.hist.end.to_fen()));
                }
            }
        }
        // the reference first: the engine is only asked for the depths the reference can afford
        // (a root whose capture search explodes would otherwise keep the engine busy for minutes)
        let mut refs: Vec<(u8, i32, Vec<(Mv, i32)>, u64)> = Vec::new();
        for d in 1..=3u8 {
            let mut rs = RefSearch::new(h, budget);
            let res = par::catch(|| rs.root(&root.board, d, &root.table));
            match res {
                Ok((want, per_move)) => {
                    if rs.over_budget {
                        acc.count("skipped_budget", (4 - d) as u64);
                        break;
                    }
                    refs.push((d, want, per_move, rs.nodes));
                }
                Err(e) => {
                    acc.inconclusive.push(format!("reference search panicked on {}: {}", root.hist.end.to_fen(), e));
                    break;
                }
            }
        }
        let dmax = match refs.last() {
            Some(x) => x.0,
            None => return,
        };
        let guard = budget.saturating_mul(16);
        let r = run_search(&root.board, &root.table, Some(guard), dmax);
        if let Some(p) = &r.panic {
            acc.violation(format!("C12|panic|{}", root.hist.command()), format!("search to depth 3 panicked on {}: {}", root.hist.end.to_fen(), p), root_case("C12", root, 3, None));
            return;
        }
        if r.report.queries >= guard {
            acc.count("skipped_engine_budget", 1);
            return;
        }
        // last line and last send of each iteration
        let mut per_depth: HashMap<u8, (Option<Info>, Option<Mv>)> = HashMap::new();
        let mut cur = 0u8;
        for e in &r.report.events {
            match e {
                crate::verif::Ev::IterStart(d) => cur = *d,
                crate::verif::Ev::Send(b, false) => {
                    per_depth.entry(cur).or_insert((None, None)).1 = mv_of(b).ok();
                }
                crate::verif::Ev::Line(l) => {
                    if let Ok(info) = parse_info(l, true) {
                        per_depth.entry(cur).or_insert((None, None)).0 = Some(info);
                    }
                }
                _ => {}
            }
        }
        for (d, want, per_move, nodes) in refs {
            acc.evaluations += 1;
            acc.count("reference_nodes", nodes);
            acc.distinct.insert(hash64(&format!("{}|{}", root.hist.command(), d)));
            acc.feature(if root.hist.moves.is_empty() { "empty_history" } else { "with_history" });
            if want.abs() >= MATE - 15 {
                acc.feature("mate_value");
            }
            let case = root_case("C12", root, d, None);
            match per_depth.get(&d) {
                Some((Some(info), best)) => {
                    if !score_matches_value(&info.score, want) {
                        acc.violation(
                            format!("C12|value|{}|d{}", root.hist.command(), d),
                            format!("{} (history: {} plies): depth {} reports {:?} but the exact minimax value of the engine's own evaluation is {}", root.hist.end.to_fen(), root.hist.moves.len(), d, info.score, want),
                            case.clone(),
                        );
                    }
                    if let Some(bm) = best {
                        match per_move.iter().find(|(m, _)| m == bm) {
                            Some((_, v)) if *v == want => {}
                            Some((_, v)) => acc.violation(
                                format!("C12|move|{}|d{}", root.hist.command(), d),
                                format!("{}: move {} selected at depth {} has exact value {} but the position's value is {}", root.hist.end.to_fen(), bm, d, v, want),
                                case.clone(),
                            ),
                            None => acc.violation(format!("C12|move-missing|{}|d{}", root.hist.command(), d), format!("{}: selected move {} is not a root move", root.hist.end.to_fen(), bm), case.clone()),
                        }
                    }
                    if sample && d == 3 {
                        acc.sample(json!({"position_command": truncate(&root.hist.command(), 200), "depth": d, "reported": format!("{:?}", info.score), "reference_value": want, "selected": best.map(|m| m.to_string())}));
                    }
                }
                _ => acc.violation(format!("C12|no-line|{}|d{}", root.hist.command(), d), format!("{}: no info line for completed depth {}", root.hist.end.to_fen(), d), case),
            }
        }
}

// ------------------------------------------------------------------------------------------------
// C18
// ------------------------------------------------------------------------------------------------

pub fn run_c18(tier: Tier, seed: u64) -> i32 {
    let mut run = Run::new("C18", tier, seed, "exploration");
    run.rule = "evaluation = one info line. In-process: every line captured from the real search under the virtual clock, with the allowance expiring at enumerated clock-query indices k (C07's enumeration on a smaller root set, depth limits 1..5) so that the clock cuts the search at every kind of point; black box: every info line of timed go commands on the real binary, including info bursts (mate-in-one roots under slices of 1-4 ms: about a hundred lines within a millisecond or two while the I/O thread prints bestmove) and long searches (slices of 1.2-3 s on middle-game roots, where one iteration lasts hundreds of milliseconds and prints several lines). Each line is checked against the strict grammar `info pv <moves> depth D nodes N score (cp X|mate Y) time T`, D >= 1 and non-decreasing within a search, Y != 0, |X| < 9 999 999 and <= 100 000, the value implied by mate Y within the mate range, first PV move legal at the root, strictly increasing score within one depth. Non-trivial = a run that produced at least one line with the expiry strictly inside the search; distinct by (root, D, k) or transcript".into();
    run.assumptions = vec![
        "a leaked sentinel prints as 'score mate -4949999'; the implied-value bound catches it, and no correct line can trip it because mate is printed only within 15 of the mate score".into(),
        "first PV move is compared by from/to squares (PV tokens carry no promotion letter by design of the engine's output)".into(),
    ];
    let h = ZobristHasher::create_zobrist_hasher();
    let mut roots = search_roots(seed ^ 0x18, tier.pick(24usize, 200), &h, false);
    // single-reply and two-reply roots (the root loop's special cases)
    roots.extend(few_move_roots(seed ^ 0x18, tier.pick(8, 60), &h));
    let mut jobs: Vec<(usize, u8)> = Vec::new();
    for (i, r) in roots.iter().enumerate() {
        let pieces = r.hist.end.sq.iter().filter(|x| x.is_some()).count();
        let ds: Vec<u8> = if pieces <= 6 { vec![3, 5, 6] } else if pieces <= 14 { vec![2, 4] } else { vec![1, 3, 4] };
        for d in ds {
            jobs.push((i, d));
        }
    }
    let results = par::par_map(jobs.len(), |j| {
        let (ri, d) = jobs[j];
        let root = &roots[ri];
        let mut acc = Acc::new();
        let mut rng = Rng::stream(seed, 18000 + j as u64);
        let rinf = run_search(&root.board, &root.table, None, d);
        let f = check_run("C18", root, d, None, &rinf, &mut acc);
        acc.evaluations += f.infos.len() as u64;
        if j < 3 {
            if let Some(crate::verif::Ev::Line(l)) = rinf.report.events.iter().rev().find(|e| matches!(e, crate::verif::Ev::Line(_))) {
                acc.sample(json!({"root": root.hist.end.to_fen(), "depth_limit": d, "last_line": l}));
            }
        }
        let q = rinf.report.queries;
        let (ks, _) = choose_ks(q, &rinf, &mut rng, 600, 100);
        for k in ks {
            let rk = run_search(&root.board, &root.table, Some(k), d);
            let f = check_run("C18", root, d, Some(k), &rk, &mut acc);
            acc.evaluations += f.infos.len() as u64;
            if k > 0 && k < q && !f.infos.is_empty() {
                acc.distinct.insert(hash64(&format!("{}|{}|{}", root.hist.command(), d, k)));
                acc.feature("lines_with_expiry_inside_search");
            }
            for i in &f.infos {
                if matches!(i.score, Score::Mate(_)) {
                    acc.feature("mate_line");
                }
            }
        }
        acc
    });
    for a in results {
        run.acc.merge(a, &[]);
    }
    // Deep searches: forced mates longer than the printer's mate window (more than 15 plies) are
    // reported as large cp values, and iterations beyond 30 are only reached on cheap roots. Both
    // need many iterations, so these roots run with an iteration limit of 99 and a budget of
    // clock queries instead of a small depth limit.
    let mut deep: Vec<Root> = Vec::new();
    for fen in ["4b1bk/3p1p1p/2pPpP1P/2p1p3/8/8/P1P1P3/K7 b - -", "8/8/8/3k4/8/3K4/3Q4/8 w - -", "8/8/8/3k4/8/3K4/3R4/8 w - -", "4k3/8/8/8/8/8/3Q4/4K3 b - -", "8/8/8/8/8/k7/p7/K7 b - -", "8/8/4k3/8/8/4K3/4P3/8 w - -"] {
        let p = Pos::parse_fen(fen).unwrap();
        if let Ok(r) = make_root(History { start: p.clone(), moves: vec![], end: p }, &h) {
            deep.push(r);
        }
    }
    deep.extend(deep_iteration_roots(seed ^ 0x18, tier.pick(10, 100), &h));
    let budget = tier.pick(1_200_000u64, 6_000_000);
    let results = par::par_map(deep.len(), |j| {
        let root = &deep[j];
        let mut acc = Acc::new();
        let r = run_search(&root.board, &root.table, Some(budget), 99);
        let f = check_run("C18", root, 99, Some(budget), &r, &mut acc);
        acc.evaluations += f.infos.len() as u64;
        acc.count("deep_search_runs", 1);
        acc.max("deep_max_iteration_reached", r.report.depth_started as u64);
        let big = f.infos.iter().filter(|i| matches!(i.score, Score::Cp(x) if x.abs() > 90_000)).count();
        if big > 0 {
            acc.feature("cp_line_for_a_mate_beyond_the_mate_window");
            acc.distinct.insert(hash64(&format!("deepc18|{}", root.hist.command())));
            acc.count("cp_lines_above_90000", big as u64);
        }
        if j == 0 {
            acc.sample(json!({"deep_root": root.hist.end.to_fen(), "iterations": r.report.depth_started, "lines": f.infos.len(), "largest_abs_score": f.infos.iter().map(|i| score_key(&i.score).abs()).max()}));
        }
        acc
    });
    for a in results {
        run.acc.merge(a, &["deep_max_iteration_reached"]);
    }
    let t0 = std::time::Instant::now();
    super::timed::c18_blackbox(&mut run);
    let t1 = std::time::Instant::now();
    super::timed::burst_sessions(&mut run, "C18");
    run.set("phase_seconds", json!({"blackbox": (t1 - t0).as_secs_f64(), "burst_sessions": t1.elapsed().as_secs_f64()}));
    run.floor_distinct = 200;
    run.finish()
}
