//! Sanitizer jobs (Miri / TSan / valgrind): supporting evidence that the schedules the
//! behavioural monitors judge are free of UB and data races. Thorough tier only.

use super::c03::run_parallel;
use super::rules_driver::truncate;
use super::searchlib::History;
use crate::bb::{self, SpawnOpts};
use crate::ev::{Run, Tier};
use crate::rng::{hash64, Rng};
use crate::sess::*;
use serde_json::json;
use std::process::Command;
use std::time::{Duration, Instant};

struct JobOut {
    ok: bool,
    sanitizer_report: bool,
    summary: String,
    tail: String,
}

fn run_cmd(mut cmd: Command, timeout: Duration) -> (Option<i32>, String) {
    cmd.stdout(std::process::Stdio::piped()).stderr(std::process::Stdio::piped());
    let mut child = match cmd.spawn() {
        Ok(c) => c,
        Err(e) => return (None, format!("spawn failed: {}", e)),
    };
    let mut so = child.stdout.take().unwrap();
    let mut se = child.stderr.take().unwrap();
    let t1 = std::thread::spawn(move || {
        let mut s = String::new();
        let _ = std::io::Read::read_to_string(&mut so, &mut s);
        s
    });
    let t2 = std::thread::spawn(move || {
        let mut s = String::new();
        let _ = std::io::Read::read_to_string(&mut se, &mut s);
        s
    });
    let start = Instant::now();
    let status = loop {
        match child.try_wait() {
            Ok(Some(s)) => break s.code(),
            Ok(None) => {
                if start.elapsed() > timeout {
                    let _ = child.kill();
                    let _ = child.wait();
                    break None;
                }
                std::thread::sleep(Duration::from_millis(50));
            }
            Err(_) => break None,
        }
    };
    let out = format!("{}\n{}", t1.join().unwrap_or_default(), t2.join().unwrap_or_default());
    (status, out)
}

fn judge(status: Option<i32>, out: &str) -> JobOut {
    let report = out.contains("Undefined Behavior") || out.contains("Data race detected") || out.contains("WARNING: ThreadSanitizer") || out.contains("data race");
    let ok = status == Some(0) && out.contains("GO-JOB ok") && !report;
    let summary = out.lines().find(|l| l.starts_with("GO-JOB seed=")).unwrap_or("").to_string();
    let tail: Vec<&str> = out.lines().rev().take(12).collect();
    JobOut { ok, sanitizer_report: report, summary, tail: tail.into_iter().rev().collect::<Vec<_>>().join("\n") }
}

/// Miri many seeds + TSan on the real two-thread `go` composition (wmon go-job).
pub fn c03_sanitizer_jobs(run: &mut Run) {
    if run.tier != Tier::Thorough {
        run.set("sanitizer_jobs", json!("thorough tier only (Miri seeds and TSan on the two-thread go composition)"));
        return;
    }
    let seed = run.seed;
    let mut jobs_report = Vec::new();
    // ---- Miri -------------------------------------------------------------------------------
    // build once (cargo serialises), then 16 seeds in parallel
    let mk = |s: u64, fp: Option<&str>| {
        let mut c = Command::new("cargo");
        c.current_dir(crate::ev::root())
            .args(["+nightly", "miri", "run", "--release", "--manifest-path", &format!("{}/harness/Cargo.toml", crate::ev::root()), "--target-dir", &format!("{}/.target/miri", crate::ev::root()), "--", "go-job", &s.to_string(), "3", "miri"])
            .env("CARGO_NET_OFFLINE", "true")
            .env("MIRIFLAGS", format!("-Zmiri-disable-isolation -Zmiri-seed={}", s))
            .env_remove("RUSTFLAGS");
        if let Some(fp) = fp {
            c.env("WMON_FP", fp);
        }
        c
    };
    let t0 = Instant::now();
    let (st, out) = run_cmd(mk(seed * 100, None), Duration::from_secs(1500));
    let first = judge(st, &out);
    let mut miri_ok = first.ok as u64;
    let mut miri_runs = 1u64;
    let mut sigs: Vec<String> = vec![first.summary.clone()];
    if !first.ok {
        if first.sanitizer_report {
            run.acc.violation("C03|miri|0".into(), format!("Miri reported undefined behaviour or a data race in the two-thread go composition (seed {}): {}", seed * 100, truncate(&first.tail, 600)), json!({"kind": "miri", "seed": seed * 100}));
        } else if out.contains("GO-JOB problem") {
            run.acc.violation("C03|miri-oracle|0".into(), format!("go composition under Miri failed its own oracle: {}", truncate(&first.tail, 600)), json!({"kind": "miri", "seed": seed * 100}));
        } else {
            run.acc.inconclusive.push(format!("Miri job did not complete (status {:?}): {}", st, truncate(&first.tail, 300)));
        }
    } else {
        let n = 15u64;
        let res = run_parallel(15, n as usize, |i| {
            let s = seed * 100 + 1 + i as u64;
            let fp = if i % 3 == 2 { Some("search_before_send=30000;prob=60") } else if i % 3 == 1 { Some("io_loop_top=5000,search_root_move=2000;prob=50") } else { None };
            let (st, out) = run_cmd(mk(s, fp), Duration::from_secs(1500));
            (s, st, judge(st, &out))
        });
        for (s, st, j) in res {
            miri_runs += 1;
            if j.ok {
                miri_ok += 1;
                sigs.push(j.summary.clone());
            } else if j.sanitizer_report {
                run.acc.violation(format!("C03|miri|{}", s), format!("Miri reported undefined behaviour or a data race in the two-thread go composition (seed {}): {}", s, truncate(&j.tail, 600)), json!({"kind": "miri", "seed": s}));
            } else if j.tail.contains("GO-JOB problem") {
                run.acc.violation(format!("C03|miri-oracle|{}", s), format!("go composition under Miri failed its own oracle (seed {}): {}", s, truncate(&j.tail, 600)), json!({"kind": "miri", "seed": s}));
            } else {
                run.acc.count("miri_seeds_incomplete", 1);
                let _ = st;
            }
        }
    }
    run.acc.evaluations += miri_runs * 3;
    jobs_report.push(json!({"tool": "miri", "program": "wmon go-job (find_and_play_best_move on tiny positions, 3 go per seed)", "seeds": miri_runs, "clean": miri_ok, "wall_s": t0.elapsed().as_secs(), "summaries": sigs.iter().take(4).collect::<Vec<_>>()}));
    // ---- TSan -------------------------------------------------------------------------------
    let t0 = Instant::now();
    let mut b = Command::new("cargo");
    b.current_dir(crate::ev::root())
        .args(["+nightly", "build", "--release", "-Zbuild-std", "--target", "x86_64-unknown-linux-gnu", "--manifest-path", &format!("{}/harness/Cargo.toml", crate::ev::root()), "--target-dir", &format!("{}/.target/tsan", crate::ev::root())])
        .env("CARGO_NET_OFFLINE", "true")
        .env("RUSTFLAGS", "-Zsanitizer=thread");
    let (st, out) = run_cmd(b, Duration::from_secs(1200));
    let bin_s = format!("{}/.target/tsan/x86_64-unknown-linux-gnu/release/wmon", crate::ev::root());
    let bin = bin_s.as_str();
    if st != Some(0) || !std::path::Path::new(bin).exists() {
        run.acc.inconclusive.push(format!("TSan build failed: {}", truncate(&out, 300)));
    } else {
        let n = 32usize;
        let res = run_parallel(16, n, |i| {
            let mut c = Command::new(bin);
            c.args(["go-job", &(seed * 1000 + i as u64).to_string(), "150", "native"]).env("TSAN_OPTIONS", "halt_on_error=0 exitcode=66");
            if i % 2 == 1 {
                c.env("WMON_FP", "search_before_send=2000,io_loop_top=800,io_after_recv=800;prob=60");
            }
            let (st, out) = run_cmd(c, Duration::from_secs(600));
            (i, st, judge(st, &out))
        });
        let mut clean = 0;
        for (i, st, j) in res {
            run.acc.evaluations += 150;
            if j.ok {
                clean += 1;
            } else if j.sanitizer_report || st == Some(66) {
                run.acc.violation(format!("C03|tsan|{}", i), format!("ThreadSanitizer reported a race in the two-thread go composition: {}", truncate(&j.tail, 600)), json!({"kind": "tsan", "seed": seed * 1000 + i as u64}));
            } else if j.tail.contains("GO-JOB problem") {
                run.acc.violation(format!("C03|tsan-oracle|{}", i), format!("go composition under TSan failed its own oracle: {}", truncate(&j.tail, 600)), json!({"kind": "tsan", "seed": seed * 1000 + i as u64}));
            } else {
                run.acc.count("tsan_jobs_incomplete", 1);
            }
        }
        if clean == 0 {
            run.acc.inconclusive.push("no TSan job completed".into());
        }
        jobs_report.push(json!({"tool": "tsan (-Zsanitizer=thread -Zbuild-std)", "program": "wmon go-job, 150 go per process", "processes": n, "clean": clean, "wall_s": t0.elapsed().as_secs()}));
    }
    run.set("sanitizer_jobs", json!(jobs_report));
}

/// Lifecycle sessions under valgrind memcheck (covers the mimalloc C allocator Miri cannot enter).
pub fn c17_valgrind(run: &mut Run, plain: &std::path::PathBuf, roots: &[History]) {
    if run.tier != Tier::Thorough {
        run.set("sanitizer_jobs", json!("thorough tier only (valgrind memcheck on lifecycle sessions)"));
        return;
    }
    let seed = run.seed;
    let n = 48usize;
    let t0 = Instant::now();
    let res = run_parallel(16, n, |i| {
        let mut rng = Rng::stream(seed, 0x7A16 + i as u64);
        let mut opts = SpawnOpts::default();
        opts.valgrind = true;
        let mut notes: Vec<String> = Vec::new();
        let mut s = match Sess::start(plain, opts, false) {
            Ok(s) => s,
            Err(e) => return (false, vec![format!("valgrind session start failed: {}", e)], String::new()),
        };
        s.eng.keep_workdir();
        if i % 3 == 0 {
            // log file on: unknown lines and every command are written to a file as well
            s.eng.send("setoption name DebugLogLevel value Info");
        }
        if i % 4 == 1 {
            // a finished game (null-move answer path) and a go without a new position after it
            s.eng.send("position fen 7k/5QQ1/8/8/8/8/8/K7 b - - 0 1");
            for _ in 0..2 {
                let g = s.go("", Duration::from_secs(120));
                if g.bestmove.is_none() {
                    notes.push("go on a finished game not answered under valgrind within 2 min".into());
                }
            }
        }
        for _ in 0..3 {
            let h = &roots[rng.below(roots.len() as u64) as usize];
            s.position(h);
            s.eng.send(&super::c17::garbage_line(&mut rng));
            let clock = 100 + rng.below(200);
            let g = s.go(&format!("{} {} movestogo 1", if h.end.stm == crate::oracle::Color::White { "wtime" } else { "btime" }, clock), Duration::from_secs(120));
            if g.bestmove.is_none() {
                notes.push("go not answered under valgrind within 2 min".into());
                break;
            }
            s.eng.drain(Duration::from_millis(200));
            if i % 5 == 2 {
                // a second go on the board the engine itself produced
                let g2 = s.go("", Duration::from_secs(120));
                if g2.bestmove.is_none() {
                    notes.push("second go not answered under valgrind within 2 min".into());
                    break;
                }
            }
        }
        let eof = i % 2 == 0;
        if eof {
            s.eng.close_stdin();
        } else {
            s.eng.send("quit");
        }
        let st = s.eng.wait_exit(Duration::from_secs(60));
        let log = std::fs::read_to_string(s.eng.workdir.join("valgrind.log")).unwrap_or_default();
        let dir = s.eng.workdir.clone();
        drop(s);
        let _ = std::fs::remove_dir_all(dir);
        let errors = st == Some(Some(97)) || log.contains("Invalid read") || log.contains("Invalid write") || log.contains("uninitialised") || log.contains("Invalid free");
        if st.is_none() {
            notes.push("process did not end within 60 s under valgrind".into());
        }
        (errors, notes, log)
    });
    let mut clean = 0;
    let mut incomplete: Vec<String> = Vec::new();
    for (i, (errors, notes, log)) in res.into_iter().enumerate() {
        run.acc.evaluations += 1;
        if errors {
            run.acc.violation(format!("C17|valgrind|{}", hash64(&log)), format!("valgrind memcheck reported memory errors in a lifecycle session: {}", truncate(&log, 600)), json!({"kind": "valgrind", "session": i}));
        } else if notes.is_empty() {
            clean += 1;
        }
        for nn in notes {
            run.acc.count("valgrind_sessions_incomplete", 1);
            incomplete.push(nn);
        }
    }
    if clean == 0 {
        run.acc.inconclusive.push(format!("no valgrind session completed cleanly: {:?}", incomplete.iter().take(3).collect::<Vec<_>>()));
    }
    run.set("sanitizer_incomplete_notes", json!(incomplete.iter().take(5).collect::<Vec<_>>()));
    run.set("sanitizer_jobs", json!([{"tool": "valgrind memcheck 3.19", "program": "plain walleye binary (mimalloc included): handshake, option line (a third), finished-game go (a quarter), position, garbage (long, multi-byte, non-UTF-8 lines included), timed go x3, go after go (a fifth), quit or EOF", "sessions": n, "clean": clean, "wall_s": t0.elapsed().as_secs()}]));
}
