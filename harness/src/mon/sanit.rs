//! Sanitizer jobs (Miri / TSan / valgrind) - supporting evidence for the schedule clauses.
use crate::ev::Run;

pub fn c03_sanitizer_jobs(_run: &mut Run) {}

pub fn c17_valgrind(_run: &mut Run, _plain: &std::path::PathBuf, _roots: &[crate::mon::searchlib::History]) {}
