//! `wmon replay <Cxx> <file>`: re-run exactly the case recorded in a replay file.
//! exit 1 (+ VIOLATION line) if the violation reproduces, 0 if the case now holds, 2 if the case
//! kind cannot be re-run deterministically (timing dependent sessions are re-run best effort).

use super::rules::{self, Prop};
use super::search::{check_prefix, check_run, make_root, Root};
use super::searchlib::*;
use crate::bb::{self, SpawnOpts};
use crate::ev::Acc;
use crate::glue::*;
use crate::oracle::*;
use crate::rng::Rng;
use crate::sess::*;
use crate::zobrist::ZobristHasher;
use serde_json::Value;

pub fn history_from_command(cmd: &str) -> Option<History> {
    let toks: Vec<&str> = cmd.split_whitespace().collect();
    if toks.first() != Some(&"position") {
        return None;
    }
    let (start, mut i) = if toks.get(1) == Some(&"startpos") {
        (Pos::start(), 2)
    } else if toks.get(1) == Some(&"fen") {
        let fen = toks.get(2..8)?.join(" ");
        (Pos::parse_fen(&fen).ok()?, 8)
    } else {
        return None;
    };
    let mut moves = Vec::new();
    let mut p = start.clone();
    if toks.get(i) == Some(&"moves") {
        i += 1;
        while i < toks.len() {
            let m = parse_mv(toks[i])?;
            if !legal_moves(&p).contains(&m) {
                return None;
            }
            p = apply(&p, m);
            moves.push(m);
            i += 1;
        }
    }
    Some(History { start, moves, end: p })
}

fn strs(v: &Value, key: &str) -> Vec<String> {
    v.get(key).and_then(|x| x.as_array()).map(|a| a.iter().filter_map(|x| x.as_str().map(|s| s.to_string())).collect()).unwrap_or_default()
}

pub fn run(prop: &str, path: &str) -> i32 {
    let text = match std::fs::read_to_string(path) {
        Ok(t) => t,
        Err(e) => {
            println!("INCONCLUSIVE cannot read {}: {}", path, e);
            return 2;
        }
    };
    let doc: Value = match serde_json::from_str(&text) {
        Ok(v) => v,
        Err(e) => {
            println!("INCONCLUSIVE {} is not JSON: {}", path, e);
            return 2;
        }
    };
    let case = doc.get("case").cloned().unwrap_or(Value::Null);
    let kind = case.get("kind").and_then(|k| k.as_str()).unwrap_or("");
    let h = ZobristHasher::create_zobrist_hasher();
    let mut acc = Acc::new();
    let mut rng = Rng::new(1);
    let mut supported = true;
    match kind {
        "walk" => {
            let p = match Prop::parse(prop) {
                Some(p) => p,
                None => {
                    println!("INCONCLUSIVE walk case for non-rules property {}", prop);
                    return 2;
                }
            };
            let start = match case.get("start_fen").and_then(|f| f.as_str()).and_then(|f| Pos::parse_fen(f).ok()) {
                Some(s) => s,
                None => {
                    println!("INCONCLUSIVE bad start_fen");
                    return 2;
                }
            };
            let mvs: Vec<Mv> = strs(&case, "moves").iter().filter_map(|m| parse_mv(m)).collect();
            let mut i = 0;
            let mut choose = |_p: &Pos, _l: &[Mv], _ply: usize| -> Option<Mv> {
                let r = mvs.get(i).copied();
                i += 1;
                r
            };
            // the walker performs the per-ply checks of the property at every node of the path,
            // the final node included (capture chains for C13 start there)
            rules::walk(&start, mvs.len() + 1, &mut choose, &h, p, &mut rng, &mut acc);
            if p == Prop::C04 {
                super::rules_driver::whole_line_check(&start, &mvs, &h, &mut acc);
            }
        }
        "placement" => {
            let fen = case.get("fen").and_then(|f| f.as_str()).unwrap_or("");
            match Pos::parse_fen(fen) {
                Ok(p) => match prop {
                    "C06" => super::rules_driver::c06_placement(&p, &mut acc, false),
                    "C14" => super::c14::check_placement(&p, &mut acc, &mut rng, false),
                    _ => supported = false,
                },
                Err(_) => supported = false,
            }
        }
        "fen_string" => {
            let s = case.get("string").and_then(|f| f.as_str()).unwrap_or("");
            super::c15::observe(s, &mut acc, "replay");
        }
        "cli_fen" => {
            let s = case.get("string").and_then(|f| f.as_str()).unwrap_or("");
            match bb::build_plain() {
                Ok(bin) => match bb::run_cli(&bin, &[&format!("--fen={}", s), "-T", "-d", "1"], 20_000) {
                    Ok(o) => {
                        println!("exit status {:?}\nstdout: {}\nstderr: {}", o.status, o.stdout.trim(), o.stderr.trim());
                        if o.status != Some(0) || o.stderr.contains("panicked") || o.stdout.trim().is_empty() {
                            acc.violation("C15|cli|replay".into(), format!("walleye --fen={:?} -T -d 1: exit status {:?}", s, o.status), case.clone());
                        } else if o.stdout.contains("Searched to a depth of") && matches!(crate::par::catch(|| crate::board::BoardState::from_fen(s).is_ok()), Ok(false)) {
                            acc.violation("C15|cli-ran-what-loading-rejects|replay".into(), format!("walleye --fen={:?} -T -d 1 ran a perft although loading this string reports an error", s), case.clone());
                        }
                    }
                    Err(e) => {
                        println!("INCONCLUSIVE {}", e);
                        return 2;
                    }
                },
                Err(e) => {
                    println!("INCONCLUSIVE {}", e);
                    return 2;
                }
            }
        }
        "cli_fen_bytes" => {
            use std::os::unix::ffi::OsStringExt;
            let hex = case.get("hex").and_then(|f| f.as_str()).unwrap_or("");
            let mut arg = b"--fen=".to_vec();
            for i in (0..hex.len() / 2 * 2).step_by(2) {
                if let Ok(b) = u8::from_str_radix(&hex[i..i + 2], 16) {
                    arg.push(b);
                }
            }
            let args: Vec<std::ffi::OsString> = vec![std::ffi::OsString::from_vec(arg), "-T".into(), "-d".into(), "1".into()];
            match bb::build_plain().and_then(|bin| bb::run_cli(&bin, &args, 20_000)) {
                Ok(o) => {
                    println!("exit status {:?}\nstdout: {}\nstderr: {}", o.status, o.stdout.trim(), o.stderr.trim());
                    let bytes: Vec<u8> = (0..hex.len() / 2).filter_map(|i| u8::from_str_radix(&hex[2 * i..2 * i + 2], 16).ok()).collect();
                    if o.status != Some(0) || o.stderr.contains("panicked") || o.stdout.trim().is_empty() {
                        acc.violation("C15|cli-bytes|replay".into(), format!("walleye --fen=<bytes {}> -T -d 1: exit status {:?}", hex, o.status), case.clone());
                    } else if o.stdout.contains("Searched to a depth of") && matches!(crate::par::catch(|| crate::board::BoardState::from_fen(&String::from_utf8_lossy(&bytes)).is_ok()), Ok(false)) {
                        acc.violation("C15|cli-bytes-ran|replay".into(), format!("walleye --fen=<bytes {}> -T -d 1 ran a perft instead of printing the load error", hex), case.clone());
                    }
                }
                Err(e) => {
                    println!("INCONCLUSIVE {}", e);
                    return 2;
                }
            }
        }
        "time_slice" => {
            let g = |k: &str| case.get(k).and_then(|x| x.as_str()).and_then(|s| s.parse::<i128>().ok()).unwrap_or(0);
            let mtg = case.get("movestogo").and_then(|x| x.as_u64()).map(|x| x as u32);
            super::c09::check_point(g("wtime"), g("btime"), g("winc"), g("binc"), mtg, &mut acc, &mut rng);
        }
        "search" => {
            let cmd = case.get("position_command").and_then(|x| x.as_str()).unwrap_or("");
            let depth = case.get("depth_limit").and_then(|x| x.as_u64()).unwrap_or(3) as u8;
            let k = case.get("expiry_index").and_then(|x| x.as_u64());
            let hist = match history_from_command(cmd) {
                Some(h) => h,
                None => {
                    println!("INCONCLUSIVE cannot rebuild history from {:?}", cmd);
                    return 2;
                }
            };
            let root: Root = match make_root(hist, &h) {
                Ok(r) => r,
                Err(e) => {
                    acc.violation(format!("{}|panic|replay", prop), format!("position handler panicked: {}", e), case.clone());
                    return finish(prop, path, acc);
                }
            };
            match prop {
                "C07" | "C18" => {
                    let rinf = run_search(&root.board, &root.table, None, depth);
                    let finf = check_run(prop, &root, depth, None, &rinf, &mut acc);
                    if let Some(k) = k {
                        let rk = run_search(&root.board, &root.table, Some(k), depth);
                        let fk = check_run(prop, &root, depth, Some(k), &rk, &mut acc);
                        if prop == "C07" {
                            check_prefix(&root, depth, k, &fk.events, &finf.events, &mut acc);
                        }
                        println!("unaborted run: {:?}", nev_text(&finf.events));
                        println!("run with expiry at query {}: {:?}", k, nev_text(&fk.events));
                    }
                }
                "C12" => super::search::c12_check_root(&root, &h, 50_000_000, false, &mut acc),
                "C10" => {
                    if case.get("sub").and_then(|x| x.as_str()) == Some("line-repetition") {
                        let (refv, last) = super::c10::check_line_repetition_root(&root, "replay", &h, &mut acc);
                        println!("reference values by depth: {:?}\nlast score of each depth of the real search: {:?}", refv, last);
                    } else {
                        super::c10::c10_check_root(&root, depth, false, &mut acc)
                    }
                }
                "C11" => {
                    let cl = super::c11::classify(&root.hist.end);
                    super::c11::check_root(&root, &cl, depth, &h, &mut acc, false);
                }
                _ => supported = false,
            }
        }
        "position_line" => {
            let line = case.get("line").and_then(|x| x.as_str()).unwrap_or("");
            match history_from_command(line) {
                Some(hist) => {
                    if prop == "C10" {
                        match load_history(&hist, &h) {
                            Ok((_, dt)) => {
                                if let Some(diff) = super::c10::compare_table(&hist, &table_entries(&dt), &h) {
                                    acc.violation("C10|record|replay".into(), format!("repetition record wrong: {}", diff), case.clone());
                                }
                            }
                            Err(e) => acc.violation("C10|panic|replay".into(), format!("panicked: {}", e), case.clone()),
                        }
                    } else {
                        super::rules_driver::whole_line_check(&hist.start, &hist.moves, &h, &mut acc);
                    }
                }
                None => supported = false,
            }
        }
        "transposition" => {
            let start = case.get("start_fen").and_then(|f| f.as_str()).and_then(|f| Pos::parse_fen(f).ok());
            let s1: Vec<Mv> = strs(&case, "seq1").iter().filter_map(|m| parse_mv(m)).collect();
            let s2: Vec<Mv> = strs(&case, "seq2").iter().filter_map(|m| parse_mv(m)).collect();
            if let Some(start) = start {
                let k1 = super::rules_driver::keys_along(&start, &s1, &h);
                let k2 = super::rules_driver::keys_along(&start, &s2, &h);
                println!("keys seq1 gen/text {:?}, seq2 gen/text {:?}", k1, k2);
                if k1.0 != k1.1 || k1 != k2 || k1.0.is_none() {
                    acc.violation("C05|transposition|replay".into(), "transposing sequences give different keys".into(), case.clone());
                }
            } else {
                supported = false;
            }
        }
        "flip" => {
            let a = case.get("fen_a").and_then(|f| f.as_str()).unwrap_or("");
            let b = case.get("fen_b").and_then(|f| f.as_str()).unwrap_or("");
            match (load_fen(&format!("{} 0 1", a)), load_fen(&format!("{} 0 1", b))) {
                (Ok(x), Ok(y)) => {
                    println!("keys {:016x} {:016x}", x.zobrist_key, y.zobrist_key);
                    if x.zobrist_key == y.zobrist_key {
                        acc.violation("C05|flip|replay".into(), "positions differing in one component share a key".into(), case.clone());
                    }
                }
                _ => supported = false,
            }
        }
        "session" | "eof" | "transcript_line" => {
            // the black-box clause of C11 depends on where a 1-20 ms deadline falls: the recorded
            // script is repeated until the violation shows again (up to 60 sessions)
            if prop == "C11" {
                for attempt in 1..=60 {
                    let rc = replay_session(prop, path, &case);
                    if rc != 0 {
                        println!("(attempt {})", attempt);
                        return rc;
                    }
                }
                return 0;
            }
            return replay_session(prop, path, &case);
        }
        "pipelined" => {
            return match super::pipe::replay(prop, &case) {
                Ok(0) => {
                    println!("{} replay {}: the recorded pipelined script was served without a detectable violation", prop, path);
                    0
                }
                Ok(_) => {
                    println!("VIOLATION property={} replay={}", prop, path);
                    1
                }
                Err(e) => {
                    println!("INCONCLUSIVE {}", e);
                    2
                }
            };
        }
        _ => supported = false,
    }
    if !supported {
        println!("INCONCLUSIVE replay of case kind {:?} for {} is not supported", kind, prop);
        return 2;
    }
    finish(prop, path, acc)
}

fn finish(prop: &str, path: &str, acc: Acc) -> i32 {
    if acc.violations.is_empty() {
        println!("{} replay {}: the recorded case holds now ({} evaluations)", prop, path, acc.evaluations);
        0
    } else {
        for v in acc.violations.iter().take(5) {
            println!("  violation: {}", v.what);
        }
        println!("VIOLATION property={} replay={}", prop, path);
        1
    }
}

/// Best effort: send the recorded script to a fresh engine (same build / failpoints), check
/// every go for exactly one legal bestmove (or a null move on terminal roots).
fn replay_session(prop: &str, path: &str, case: &Value) -> i32 {
    let mut script = strs(case, "script");
    // cases recorded as bare [position, go ...] start after the handshake
    if !script.is_empty() && script[0] != "uci" {
        script.insert(0, "uci".into());
    }
    if script.is_empty() {
        println!("INCONCLUSIVE no script recorded in {}", path);
        return 2;
    }
    let hooked = case.get("hooked").and_then(|x| x.as_bool()).unwrap_or(false) || case.get("failpoints").map(|f| !f.is_null()).unwrap_or(false);
    let bin = match if hooked { bb::build_hooked() } else { bb::build_plain() } {
        Ok(b) => b,
        Err(e) => {
            println!("INCONCLUSIVE {}", e);
            return 2;
        }
    };
    let mut opts = SpawnOpts::default();
    if let Some(fp) = case.get("failpoints").and_then(|f| f.as_str()) {
        opts.env.push(("WALLEYE_VERIF_FP".into(), format!("{};seed=1;prob=70", fp)));
    }
    let mut eng = match bb::Engine::spawn(&bin, &opts) {
        Ok(e) => e,
        Err(e) => {
            println!("INCONCLUSIVE {}", e);
            return 2;
        }
    };
    let mut cur: Option<Pos> = None;
    let mut bad = 0;
    for line in &script {
        if line == "<EOF>" {
            eng.close_stdin();
            continue;
        }
        eng.send(line);
        if line == "uci" {
            let _ = eng.wait_for(|l| l == "uciok", WATCHDOG);
        } else if line.starts_with("position") {
            cur = history_from_command(line).map(|h| h.end);
        } else if line.split_whitespace().next() == Some("go") {
            match eng.wait_for(|l| l.starts_with("bestmove"), WATCHDOG) {
                Some(i) => {
                    let text = crate::sess::bestmove_text(&eng.transcript[i].line);
                    if let Some(p) = &cur {
                        let legal = legal_moves(p);
                        if legal.is_empty() {
                            if text != "0000" && text != "(none)" {
                                println!("  violation: '{}' on terminal {} answered {}", line, p.to_fen(), text);
                                bad += 1;
                            }
                        } else {
                            match parse_mv(&text) {
                                Some(m) if legal.contains(&m) => {
                                    if prop == "C11" {
                                        // the move played under a short slice, judged as in the check
                                        let mut sv = Solver::new(400_000);
                                        let mate1 = sv.mate_in(p, 1) == Some(true);
                                        let losing: Vec<Mv> = if mate1 { vec![] } else { legal.iter().copied().filter(|x| sv.mate_in(&apply(p, *x), 1) == Some(true)).collect() };
                                        let losing = if losing.len() == legal.len() { vec![] } else { losing };
                                        let plan = plan_for(line, p.stm).unwrap_or(0) as u64;
                                        let from = eng.transcript.iter().rposition(|e| e.dir == bb::Dir::Sent && &e.line == line).unwrap_or(0);
                                        let infos: Vec<String> = eng.transcript[from..=i].iter().filter(|e| e.dir == bb::Dir::Out && e.line.starts_with("info")).map(|e| e.line.clone()).collect();
                                        if let (_, Some(why)) = super::timed::c11_judge_played(p, mate1, &losing, plan, &infos, m) {
                                            println!("  violation: {}", why);
                                            bad += 1;
                                        }
                                    }
                                    cur = Some(apply(p, m))
                                }
                                _ => {
                                    println!("  violation: '{}' on {} answered '{}' (not legal)", line, p.to_fen(), text);
                                    bad += 1;
                                    cur = None;
                                }
                            }
                        }
                    }
                }
                None => {
                    println!("  violation: '{}' not answered within 10 s (threads {}, exited {:?})", line, eng.thread_count(), eng.exited());
                    bad += 1;
                    break;
                }
            }
        } else if line == "isready" {
            if eng.wait_for(|l| l == "readyok", WATCHDOG).is_none() {
                println!("  violation: isready not answered");
                bad += 1;
                break;
            }
        }
    }
    eng.drain(std::time::Duration::from_millis(50));
    if eng.stderr_text().contains("panicked") {
        println!("  stderr: {}", eng.stderr_text());
        if prop == "C07" || prop == "C17" {
            bad += 1;
        }
    }
    for l in eng.transcript_text(60) {
        println!("    {}", l);
    }
    if bad > 0 {
        println!("VIOLATION property={} replay={}", prop, path);
        1
    } else {
        println!("{} replay {}: the recorded script was served without a detectable violation (timing-dependent cases may need several attempts)", prop, path);
        0
    }
}
