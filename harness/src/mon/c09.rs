//! C09: planned thinking time is a function of the mover's clock only and never exceeds it;
//! measured go -> bestmove delay equals the plan up to scheduling overhead.

use crate::bb;
use crate::board::PieceColor;
use crate::ev::{Acc, Run, Tier};
use crate::oracle::*;
use crate::par;
use crate::rng::{hash64, Rng};
use crate::time_control::GameTime;
use serde_json::json;
use std::time::Duration;

const EDGE: &[i128] = &[
    i128::MIN, -1_000_000_000_000_000_000_000_000_000_000, -1_000_000_000_000_000_000, -5, -1, 0, 1, 50, 99, 100, 101, 102, 103, 110, 130, 137, 250, 1000, 3000, 60_000, 9_007_199_254_740_991, 9_007_199_254_740_993,
    1_000_000_000_000_000_000_000_000_000_000, i128::MAX,
];
const MTG: &[Option<u32>] = &[None, Some(1), Some(2), Some(29), Some(30), Some(31), Some(40), Some(1_000_000_000), Some(u32::MAX)];

pub fn slice(gt: &GameTime, white: bool) -> Result<u128, String> {
    par::catch(|| gt.calculate_time_slice(if white { PieceColor::White } else { PieceColor::Black }))
}

/// Upper bounds written from the property's statement only.
pub fn check_point(wtime: i128, btime: i128, winc: i128, binc: i128, mtg: Option<u32>, acc: &mut Acc, rng: &mut Rng) {
    for white in [true, false] {
        acc.evaluations += 1;
        let gt = GameTime { wtime, btime, winc, binc, movestogo: mtg };
        let (clock, inc) = if white { (wtime, winc) } else { (btime, binc) };
        let case = json!({"kind": "time_slice", "property": "C09", "wtime": wtime.to_string(), "btime": btime.to_string(), "winc": winc.to_string(), "binc": binc.to_string(),
                          "movestogo": mtg, "white_to_move": white});
        let s = match slice(&gt, white) {
            Ok(s) => s,
            Err(e) => {
                acc.violation(format!("C09|panic|{}|{}|{:?}", clock, inc, mtg), format!("calculate_time_slice panicked for clock {} inc {} movestogo {:?}: {}", clock, inc, mtg, e), case);
                continue;
            }
        };
        let sig_base = format!("clock={} inc={} mtg={:?}", clock, inc, mtg);
        if clock > 100 || inc > 0 {
            if acc.distinct.insert(hash64(&sig_base)) {
                acc.feature(if clock > 100 { "clock_above_margin" } else { "increment_only" });
            }
        }
        // (a) only the mover's clock and increment matter
        let other = GameTime {
            wtime: if white { wtime } else { *rng.pick(EDGE) },
            btime: if white { *rng.pick(EDGE) } else { btime },
            winc: if white { winc } else { *rng.pick(EDGE) },
            binc: if white { *rng.pick(EDGE) } else { binc },
            movestogo: mtg,
        };
        if let Ok(s2) = slice(&other, white) {
            if s2 != s {
                acc.violation(format!("C09|other-side|{}", sig_base), format!("slice for {} changes from {} to {} when only the opponent's clock/increment change ({})", if white { "white" } else { "black" }, s, s2, sig_base), case.clone());
            }
        }
        // (b) never more than the remaining clock
        let clock_nonneg: u128 = if clock > 0 { clock as u128 } else { 0 };
        if s > clock_nonneg {
            acc.violation(format!("C09|exceeds-clock|{}", sig_base), format!("planned slice {} ms exceeds the mover's remaining clock {} ms ({})", s, clock, sig_base), case.clone());
        }
        // (c) with more than the margin left: at most 80% of (clock - margin) / moves to go
        if clock > 100 {
            let m = mtg.unwrap_or(30).max(1) as f64;
            let bound = 0.8 * ((clock - 100) as f64) / m;
            let allowed = bound + 0.5 + bound.abs() * 1e-9;
            if (s as f64) > allowed {
                acc.violation(format!("C09|exceeds-share|{}", sig_base), format!("planned slice {} ms exceeds 80% of (clock - 100) / movestogo = {:.3} ({})", s, bound, sig_base), case.clone());
            }
        }
        // (d) no usable clock and no increment: zero
        if clock <= 100 && inc <= 0 && s != 0 {
            acc.violation(format!("C09|nonzero|{}", sig_base), format!("planned slice {} ms although clock {} <= margin and increment {} <= 0", s, clock, inc), case);
        }
    }
}

pub fn log_uniform(rng: &mut Rng) -> i128 {
    let bits = rng.below(100);
    let mag: i128 = if bits == 0 { 0 } else { (rng.next() as i128) >> (64 - bits.min(63)) };
    let mag = if bits > 63 { mag << (bits - 63) } else { mag };
    if rng.chance(1, 5) {
        -mag
    } else {
        mag
    }
}

/// movestogo values written in full: around every width an implementation might narrow to
const MTG_TEXT: &[&str] = &[
    "255", "256", "257", "65535", "65536", "65537", "2147483647", "2147483648", "2147483649", "4294967295", "4294967296", "4294967297", "4294967298", "4294967326", "8589934593", "1099511627777",
    "9223372036854775807", "9223372036854775809", "18446744073709551615", "18446744073709551616", "18446744073709551617", "18446744073709551646", "170141183460469231731687303715884105727",
    "170141183460469231731687303715884105729", "340282366920938463463374607431768211457", "99999999999999999999999999999999999999999999",
];

/// Parser: tokens in any order with unknown tokens interleaved must yield the fields written,
/// and the plan computed from the parsed record must respect the bound of the numbers *written*.
pub fn check_parse(rng: &mut Rng, acc: &mut Acc) {
    acc.evaluations += 1;
    let mut fields: Vec<(&str, i128)> = Vec::new();
    let mut names = vec!["wtime", "btime", "winc", "binc", "movestogo"];
    rng.shuffle(&mut names);
    let keep = rng.range(0, 5) as usize;
    let mut line = vec!["go".to_string()];
    let mut mtg_written: Option<f64> = None;
    let mut mtg_exact: Option<u32> = None;
    for name in names.iter().take(keep) {
        let mut text = None;
        let v: i128 = if *name == "movestogo" {
            if rng.chance(1, 3) {
                let t = *rng.pick(MTG_TEXT);
                text = Some(t.to_string());
                mtg_written = t.parse::<f64>().ok();
                mtg_exact = t.parse::<u32>().ok();
                0
            } else {
                let v = rng.range(1, 200) as i128;
                mtg_written = Some(v as f64);
                mtg_exact = Some(v as u32);
                v
            }
        } else if rng.chance(1, 4) {
            *rng.pick(EDGE)
        } else if rng.chance(1, 3) {
            // ordinary clocks: the share bound below needs clocks a game really has
            rng.range(101, 4_000_000) as i128
        } else {
            log_uniform(rng)
        };
        if rng.chance(1, 4) {
            line.push(rng.pick(&["infinite", "ponder", "searchmoves", "e2e4", "foo", "depth", "nodes", "mate", "movetime"]).to_string());
        }
        line.push(name.to_string());
        line.push(text.unwrap_or_else(|| v.to_string()));
        if *name != "movestogo" {
            fields.push((name, v));
        }
    }
    if rng.chance(1, 3) {
        line.push(rng.pick(&["infinite", "ponder", "bar", "wtime"]).to_string());
    }
    let text = line.join(" ");
    let toks: Vec<&str> = text.split(' ').collect();
    let case = json!({"kind": "go_line", "property": "C09", "line": text});
    if acc.distinct.insert(hash64(&format!("parse {}", text))) {
        acc.feature("go_line_parsed");
        if mtg_written.map_or(false, |m| m > u32::MAX as f64) {
            acc.feature("go_line_movestogo_beyond_32_bits");
        }
    }
    match par::catch(|| crate::uci::verif_parse_go_command(&toks)) {
        Ok(gt) => {
            let get = |n: &str| fields.iter().find(|(k, _)| *k == n).map(|(_, v)| *v);
            let want = (get("wtime").unwrap_or(0), get("btime").unwrap_or(0), get("winc").unwrap_or(0), get("binc").unwrap_or(0));
            let got = (gt.wtime, gt.btime, gt.winc, gt.binc);
            if got != want {
                acc.violation(format!("C09|parse|{}", text), format!("'{}' parsed as {:?}, written {:?}", text, got, want), case.clone());
            }
            if mtg_written.is_none() || mtg_exact.is_some() {
                if gt.movestogo != mtg_exact {
                    acc.violation(format!("C09|parse|{}", text), format!("'{}': movestogo parsed as {:?}, written {:?}", text, gt.movestogo, mtg_exact), case.clone());
                }
            }
            // the plan must respect the share of the numbers written, whatever the record holds
            for white in [true, false] {
                let clock = if white { want.0 } else { want.1 };
                // A count beyond 32 bits cannot be held by the engine's record (Option<u32>); it
                // saturates. For clocks up to 10^9 ms (11 days) any saturation at >= 2^32-1 plans
                // 0 ms like the exact quotient does, so the written numbers can be used as they
                // are; an astronomical clock *and* an astronomical count together are not judged.
                if clock > 100 && mtg_written.map_or(false, |m| m > u32::MAX as f64) && clock > 1_000_000_000 {
                    acc.count("astronomical_clock_and_movestogo_not_judged", 1);
                    continue;
                }
                if clock > 100 {
                    if let Ok(sl) = slice(&gt, white) {
                        let m = mtg_written.unwrap_or(30.0).max(1.0);
                        let bound = 0.8 * ((clock - 100) as f64) / m;
                        let allowed = bound + 0.5 + bound.abs() * 1e-9;
                        if (sl as f64) > allowed {
                            acc.violation(
                                format!("C09|line-exceeds-share|{}", text),
                                format!("'{}' ({} to move): plan {} ms exceeds 80% of (clock - 100) / movestogo = {:.3} computed from the numbers written (record: movestogo {:?})", text, if white { "white" } else { "black" }, sl, bound, gt.movestogo),
                                case.clone(),
                            );
                        }
                    }
                }
            }
        }
        Err(e) => {
            // a trailing clock keyword without value is skipped by the loop bound; anything else that panics is reported
            acc.violation(format!("C09|parse-panic|{}", text), format!("'{}': go parser panicked: {}", text, e), case);
        }
    }
}

pub fn run(tier: Tier, seed: u64) -> i32 {
    let mut run = Run::new("C09", tier, seed, "exploration");
    run.rule = "pure part: evaluation = one (clock, increment, movestogo, colour) point of the real calculate_time_slice checked against upper bounds written from the statement (independent of the opponent's clock; <= clock; <= 0.8*(clock-100)/mtg when clock > 100; 0 when clock <= 100 and inc <= 0) over the full cross product of 24 edge values^2 x 9 movestogo values x both colours plus log-uniform random points, and one go line (tokens in random order with unknown tokens) through the real parser; timed part: evaluation = one go on the real binary whose go->bestmove latency is compared with the plan computed by the repo's own functions (lower bound exact, upper bound plan + 300 ms confirmed by three solo retries). Non-trivial = clock above the margin or a positive increment; distinct by (clock, inc, movestogo)".into();
    run.assumptions = vec![
        "movestogo >= 1 (C08/C09 quantify over movestogo >= 1 or absent)".into(),
        "the +0.5 ms allowance covers the code's rounding to whole milliseconds; 1e-9 relative covers i128 -> f64 conversion".into(),
        "timed lower bound is exact because the driver's timer starts before the go line is written and stops after bestmove is read, on the same monotonic clock family as the engine's".into(),
    ];
    // pure part -----------------------------------------------------------------------------
    let jobs = EDGE.len() + tier.pick(128, 1600);
    let results = par::par_map(jobs, |j| {
        let mut acc = Acc::new();
        let mut rng = Rng::stream(seed, j as u64);
        if j < EDGE.len() {
            let clock = EDGE[j];
            for &inc in EDGE {
                for &mtg in MTG {
                    // the mover's values are (clock, inc); the opponent's are arbitrary
                    let o1 = *rng.pick(EDGE);
                    let o2 = *rng.pick(EDGE);
                    check_point(clock, o1, inc, o2, mtg, &mut acc, &mut rng);
                    check_point(o1, clock, o2, inc, mtg, &mut acc, &mut rng);
                    acc.count("grid_points", 2);
                }
            }
        } else {
            for i in 0..20_000 {
                let mtg = match rng.below(4) {
                    0 => None,
                    1 => Some(rng.range(1, 60) as u32),
                    _ => Some(*rng.pick(&[1u32, 2, 30, 40, 100, 1_000_000])),
                };
                let (a, b, c, d) = (log_uniform(&mut rng), log_uniform(&mut rng), log_uniform(&mut rng), log_uniform(&mut rng));
                if i == 0 && j == EDGE.len() {
                    acc.sample(json!({"wtime": a.to_string(), "btime": b.to_string(), "winc": c.to_string(), "binc": d.to_string(), "movestogo": mtg}));
                }
                check_point(a, b, c, d, mtg, &mut acc, &mut rng);
                acc.count("random_points", 1);
            }
            for _ in 0..2000 {
                check_parse(&mut rng, &mut acc);
            }
        }
        acc
    });
    for a in results {
        run.acc.merge(a, &[]);
    }
    // timed part ----------------------------------------------------------------------------
    super::timed::c09_timed(&mut run);
    run.floor_distinct = 1000;
    run.finish()
}
