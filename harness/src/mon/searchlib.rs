//! Shared machinery for the monitors that drive the real search in-process under the virtual
//! clock (C07, C10b, C11, C12, C18): running `get_best_move`, normalising its event list,
//! parsing info lines, building game histories, and the reference search for C12.

use crate::board::BoardState;
use crate::draw_table::DrawTable;
use crate::engine::get_best_move;
use crate::evaluation::get_evaluation;
use crate::glue::*;
use crate::move_generation::{generate_moves, is_check, MoveGenerationMode};
use crate::oracle::*;
use crate::par;
use crate::rng::Rng;
use crate::verif::{self, Ev, Report};
use crate::workload::{self, Policy};
use crate::zobrist::ZobristHasher;
use std::sync::mpsc;
use std::time::Instant;

pub const MATE: i32 = 100_000;
pub const SENTINEL: i32 = 9_999_999;

pub struct SearchRun {
    pub report: Report,
    pub panic: Option<String>,
    pub table_after: Vec<(u64, u32)>,
    /// boards that actually went through the channel, in order
    pub sent: Vec<BoardState>,
}

/// Every entry of the record, zero counts included: "left exactly as it was given" is taken
/// literally (entries that stay behind with a zero count are invisible to the readers, which use
/// unwrap_or(&0), but they are not the record that was given and they accumulate - see D15).
pub fn table_entries(dt: &DrawTable) -> Vec<(u64, u32)> {
    // `.into()`: the engine's counter type is its own business (u8 at the pinned commit)
    let mut v: Vec<(u64, u32)> = dt.table.iter().map(|(k, c)| (*k, (*c).into())).collect();
    v.sort_unstable();
    v
}

/// Run the real root search on the calling thread with the virtual clock armed.
/// `expiry` = index of the clock query at which the allowance runs out; `depth_limit` = last
/// iteration allowed to start (both may be given; one of them must bound the run).
pub fn run_search(board: &BoardState, table: &DrawTable, expiry: Option<u64>, depth_limit: u8) -> SearchRun {
    assert!(expiry.is_some() || depth_limit > 0, "unbounded search requested");
    let (tx, rx) = mpsc::channel();
    let mut dt = table.clone();
    verif::arm(expiry, depth_limit);
    let r = par::catch(|| get_best_move(board, &mut dt, Instant::now(), u128::MAX, &tx));
    let report = verif::disarm();
    drop(tx);
    let sent: Vec<BoardState> = rx.try_iter().collect();
    SearchRun { report, panic: r.err(), table_after: table_entries(&dt), sent }
}

#[derive(Clone, Debug, PartialEq, Eq)]
pub enum NEv {
    Iter(u8),
    Send { mv: String, fallback: bool },
    Line(String), // info line without its time field
}

pub fn strip_time(line: &str) -> String {
    match line.rfind(" time ") {
        Some(i) if line[i + 6..].bytes().all(|b| b.is_ascii_digit()) => line[..i].to_string(),
        _ => line.to_string(),
    }
}

pub fn normalise(events: &[Ev]) -> Vec<NEv> {
    events
        .iter()
        .map(|e| match e {
            Ev::IterStart(d) => NEv::Iter(*d),
            Ev::Send(b, fb) => NEv::Send { mv: mv_of(b).map(|m| m.to_string()).unwrap_or_else(|e| format!("<{}>", e)), fallback: *fb },
            Ev::Line(l) => NEv::Line(strip_time(l)),
        })
        .collect()
}

pub fn nev_text(v: &[NEv]) -> Vec<String> {
    v.iter()
        .map(|e| match e {
            NEv::Iter(d) => format!("iteration {}", d),
            NEv::Send { mv, fallback } => format!("send {}{}", mv, if *fallback { " (fallback)" } else { "" }),
            NEv::Line(l) => l.clone(),
        })
        .collect()
}

#[derive(Clone, Debug, PartialEq, Eq)]
pub enum Score {
    Cp(i64),
    Mate(i64),
}

#[derive(Clone, Debug)]
pub struct Info {
    pub pv: Vec<String>,
    pub depth: u64,
    pub nodes: u64,
    pub score: Score,
    pub time: Option<u64>,
}

/// Strict parser of `info pv <moves> depth D nodes N score (cp X|mate Y) [time T]`.
/// `need_time` = the time field must be present (raw lines) or absent (stripped lines).
pub fn parse_info(line: &str, need_time: bool) -> Result<Info, String> {
    let t: Vec<&str> = line.split(' ').collect();
    if t.len() < 2 || t[0] != "info" || t[1] != "pv" {
        return Err("does not start with 'info pv'".into());
    }
    let mut i = 2;
    let mut pv = Vec::new();
    while i < t.len() && t[i] != "depth" {
        let m = t[i];
        let b = m.as_bytes();
        // a from-to square pair; a promotion letter may follow (the engine prints none, a UCI
        // move may carry one)
        let ok = (b.len() == 4 || (b.len() == 5 && b"qrbn".contains(&b[4]))) && (b'a'..=b'h').contains(&b[0]) && (b'1'..=b'8').contains(&b[1]) && (b'a'..=b'h').contains(&b[2]) && (b'1'..=b'8').contains(&b[3]);
        if !ok {
            return Err(format!("pv token {:?} is not a move in long algebraic notation", m));
        }
        pv.push(m.to_string());
        i += 1;
    }
    if pv.is_empty() {
        return Err("empty pv".into());
    }
    let num = |s: &str| -> Result<u64, String> {
        if !s.is_empty() && s.bytes().all(|b| b.is_ascii_digit()) {
            s.parse::<u64>().map_err(|e| e.to_string())
        } else {
            Err(format!("{:?} is not a non-negative integer", s))
        }
    };
    let snum = |s: &str| -> Result<i64, String> {
        let body = s.strip_prefix('-').unwrap_or(s);
        if !body.is_empty() && body.bytes().all(|b| b.is_ascii_digit()) {
            s.parse::<i64>().map_err(|e| e.to_string())
        } else {
            Err(format!("{:?} is not an integer", s))
        }
    };
    let want = if need_time { 9 } else { 7 };
    if t.len() - i != want {
        return Err(format!("expected {} tokens after the pv, found {}", want, t.len() - i));
    }
    if t[i] != "depth" || t[i + 2] != "nodes" || t[i + 4] != "score" {
        return Err("keywords depth/nodes/score out of place".into());
    }
    let depth = num(t[i + 1])?;
    let nodes = num(t[i + 3])?;
    let score = match t[i + 5] {
        "cp" => Score::Cp(snum(t[i + 6])?),
        "mate" => Score::Mate(snum(t[i + 6])?),
        other => return Err(format!("score kind {:?}", other)),
    };
    let time = if need_time {
        if t[i + 7] != "time" {
            return Err("keyword time out of place".into());
        }
        Some(num(t[i + 8])?)
    } else {
        None
    };
    Ok(Info { pv, depth, nodes, score, time })
}

/// Numeric key of a printed score so that scores can be ordered (mate N as the engine's value).
pub fn score_key(s: &Score) -> i64 {
    match s {
        Score::Cp(x) => *x,
        Score::Mate(n) if *n > 0 => MATE as i64 - (2 * n - 1),
        Score::Mate(n) => -(MATE as i64 - 2 * n.abs()),
    }
}

/// Is internal value `v` printed as `s` by the engine's documented format
/// (mate N for |v| within 15 of the mate score, N = moves to mate)?
pub fn score_matches_value(s: &Score, v: i32) -> bool {
    let v = v as i64;
    let m = MATE as i64;
    match s {
        Score::Cp(x) => *x == v && v.abs() < m - 15,
        Score::Mate(n) if *n > 0 => v == m - 2 * n + 1 || v == m - 2 * n,
        Score::Mate(n) => {
            let k = n.abs();
            v == -m + 2 * k || v == -m + 2 * k + 1
        }
    }
}

// ------------------------------------------------------------------------------------------------
// Game histories (W-hist)
// ------------------------------------------------------------------------------------------------

#[derive(Clone)]
pub struct History {
    pub start: Pos,
    pub moves: Vec<Mv>,
    pub end: Pos,
}

impl History {
    pub fn command(&self) -> String {
        let mut s = if self.start.to_fen() == START_FEN { "position startpos".to_string() } else { format!("position fen {}", self.start.to_fen_game()) };
        if !self.moves.is_empty() {
            s.push_str(" moves");
            for m in &self.moves {
                s.push(' ');
                s.push_str(&m.to_string());
            }
        }
        s
    }

    /// Occurrence count of every position of the game, keyed by canonical FEN.
    pub fn counts(&self) -> std::collections::HashMap<String, u32> {
        let mut c = std::collections::HashMap::new();
        let mut p = self.start.clone();
        *c.entry(p.to_fen()).or_insert(0) += 1;
        for m in &self.moves {
            p = apply(&p, *m);
            *c.entry(p.to_fen()).or_insert(0) += 1;
        }
        c
    }
}

/// Find a reversible two-move shuffle (piece out and back for both sides) from `p`:
/// returns [a, b, a^-1, b^-1] such that the position after the four plies equals `p` again
/// (castling rights and ep state included).
pub fn find_cycle(p: &Pos, rng: &mut Rng) -> Option<[Mv; 4]> {
    let mut la = legal_moves(p);
    rng.shuffle(&mut la);
    for a in la.into_iter().take(12) {
        let (_, ka) = p.sq[a.from as usize]?;
        if ka == Kind::Pawn || is_capture(p, a) || is_castle(p, a) {
            continue;
        }
        let p1 = apply(p, a);
        let mut lb = legal_moves(&p1);
        rng.shuffle(&mut lb);
        for b in lb.into_iter().take(12) {
            let (_, kb) = p1.sq[b.from as usize]?;
            if kb == Kind::Pawn || is_capture(&p1, b) || is_castle(&p1, b) {
                continue;
            }
            let p2 = apply(&p1, b);
            let a_back = Mv { from: a.to, to: a.from, promo: None };
            if !legal_moves(&p2).contains(&a_back) {
                continue;
            }
            let p3 = apply(&p2, a_back);
            let b_back = Mv { from: b.to, to: b.from, promo: None };
            if !legal_moves(&p3).contains(&b_back) {
                continue;
            }
            let p4 = apply(&p3, b_back);
            if p4 == *p {
                return Some([a, b, a_back, b_back]);
            }
        }
    }
    None
}

/// A history: optional random prefix from `start`, then `cycles` repetitions of a shuffle at
/// some point, optionally interleaved with irreversible moves and further play.
pub fn make_history(start: &Pos, rng: &mut Rng, max_prefix: usize, cycles: usize, tail: usize) -> History {
    let mut p = start.clone();
    let mut moves = Vec::new();
    for _ in 0..rng.below(max_prefix as u64 + 1) {
        let ms = legal_moves(&p);
        if ms.is_empty() {
            break;
        }
        let m = workload::choose_move(rng, &p, &ms, Policy::Mixed);
        let np = apply(&p, m);
        if !has_legal_move(&np) {
            break;
        }
        moves.push(m);
        p = np;
    }
    // a position with a pending ep target cannot recur with the target set; make one quiet move first
    if cycles > 0 {
        if let Some(cyc) = find_cycle(&p, rng) {
            for _ in 0..cycles {
                for m in cyc {
                    moves.push(m);
                    p = apply(&p, m);
                }
            }
        }
    }
    for _ in 0..tail {
        let ms = legal_moves(&p);
        if ms.is_empty() {
            break;
        }
        let m = workload::choose_move(rng, &p, &ms, Policy::Shuffle);
        let np = apply(&p, m);
        if !has_legal_move(&np) {
            break;
        }
        moves.push(m);
        p = np;
    }
    History { start: start.clone(), moves, end: p }
}

/// Load a history through the engine's real `position` handler function.
pub fn load_history(hist: &History, h: &ZobristHasher) -> Result<(BoardState, DrawTable), String> {
    let cmd = hist.command();
    par::catch(|| {
        let toks: Vec<&str> = cmd.split(' ').collect();
        let mut dt = DrawTable::new();
        let b = crate::uci::verif_play_out_position(&toks, h, &mut dt);
        (b, dt)
    })
}

// ------------------------------------------------------------------------------------------------
// Reference search for C12: heuristic-free fail-soft alpha-beta over the engine's own
// generate_moves / get_evaluation / is_check / DrawTable. No PV move, killers, zero-window
// re-search, null move or mate-distance pruning.
// ------------------------------------------------------------------------------------------------

pub struct RefSearch<'a> {
    pub h: &'a ZobristHasher,
    pub nodes: u64,
    pub budget: u64,
    pub over_budget: bool,
}

const INF: i32 = 10_000_000;

impl<'a> RefSearch<'a> {
    pub fn new(h: &'a ZobristHasher, budget: u64) -> Self {
        RefSearch { h, nodes: 0, budget, over_budget: false }
    }

    fn quiesce(&mut self, board: &BoardState, mut alpha: i32, beta: i32) -> i32 {
        self.nodes += 1;
        if self.nodes > self.budget {
            self.over_budget = true;
            return 0;
        }
        let stand = get_evaluation(board);
        let mut best = stand;
        if best >= beta {
            return best;
        }
        if best > alpha {
            alpha = best;
        }
        let mut caps = generate_moves(board, MoveGenerationMode::CapturesOnly, self.h);
        // ordering only (cannot change the value): most valuable victim first
        caps.sort_by_key(|c| std::cmp::Reverse(c.order_heuristic));
        for c in caps {
            let s = -self.quiesce(&c, -beta, -alpha);
            if s > best {
                best = s;
                if s > alpha {
                    alpha = s;
                    if alpha >= beta {
                        break;
                    }
                }
            }
        }
        best
    }

    /// Value of `board` searched to `depth` at `ply` plies from the root (the root's children are
    /// at ply 1), mirroring the engine's leaf rules exactly and nothing else.
    pub fn value(&mut self, board: &BoardState, mut depth: u8, ply: i32, mut alpha: i32, beta: i32, dt: &mut DrawTable) -> i32 {
        self.nodes += 1;
        if self.nodes > self.budget {
            self.over_budget = true;
            return 0;
        }
        if dt.is_threefold_repetition(board) {
            return 0;
        }
        if depth == 0 {
            if is_check(board, board.to_move) {
                depth = 1;
            } else {
                return self.quiesce(board, alpha, beta);
            }
        }
        let mut moves = generate_moves(board, MoveGenerationMode::AllMoves, self.h);
        if moves.is_empty() {
            return if is_check(board, board.to_move) { -(MATE - ply) } else { 0 };
        }
        moves.sort_by_key(|c| std::cmp::Reverse(c.order_heuristic));
        dt.add_board_to_draw_table(board);
        let mut best = -INF;
        for m in moves {
            let s = -self.value(&m, depth - 1, ply + 1, -beta, -alpha, dt);
            if s > best {
                best = s;
                if s > alpha {
                    alpha = s;
                    if alpha >= beta {
                        break;
                    }
                }
            }
        }
        dt.remove_board_from_draw_table(board);
        best
    }

    /// Exact root value at iteration depth `d` and the value of every root move.
    pub fn root(&mut self, root: &BoardState, d: u8, dt: &DrawTable) -> (i32, Vec<(Mv, i32)>) {
        let mut out = Vec::new();
        let mut best = -INF;
        let moves = generate_moves(root, MoveGenerationMode::AllMoves, self.h);
        for m in moves {
            let mut t = dt.clone();
            // full window for every root move: exact value of each
            let v = -self.value(&m, d - 1, 1, -INF, INF, &mut t);
            if let Ok(mv) = mv_of(&m) {
                out.push((mv, v));
            }
            if v > best {
                best = v;
            }
        }
        (best, out)
    }

    /// Un-pruned minimax with the same leaf rules (self-test of the alpha-beta reference).
    pub fn minimax(&mut self, board: &BoardState, mut depth: u8, ply: i32, dt: &mut DrawTable) -> i32 {
        if dt.is_threefold_repetition(board) {
            return 0;
        }
        if depth == 0 {
            if is_check(board, board.to_move) {
                depth = 1;
            } else {
                return self.minimax_q(board);
            }
        }
        let moves = generate_moves(board, MoveGenerationMode::AllMoves, self.h);
        if moves.is_empty() {
            return if is_check(board, board.to_move) { -(MATE - ply) } else { 0 };
        }
        dt.add_board_to_draw_table(board);
        let mut best = -INF;
        for m in moves {
            best = best.max(-self.minimax(&m, depth - 1, ply + 1, dt));
        }
        dt.remove_board_from_draw_table(board);
        best
    }

    fn minimax_q(&mut self, board: &BoardState) -> i32 {
        let mut best = get_evaluation(board);
        for c in generate_moves(board, MoveGenerationMode::CapturesOnly, self.h) {
            best = best.max(-self.minimax_q(&c));
        }
        best
    }
}
