//! C15: FEN parsing is total (never panics, CLI prints the error and exits normally) and faithful
//! (every well-formed FEN of a legal position, any counters, loads exactly).

use crate::bb;
use crate::board::BoardState;
use crate::ev::{Acc, Run, Tier};
use crate::glue::*;
use crate::oracle::*;
use crate::par;
use crate::rng::{hash64, Rng};
use crate::workload;
use serde_json::json;

/// in-process observation of one string; returns Some(is_ok) unless it panicked
pub fn observe(s: &str, acc: &mut Acc, feature: &str) -> Option<bool> {
    acc.evaluations += 1;
    let r = par::catch(|| BoardState::from_fen(s).map_err(|e| e.to_string()));
    if acc.distinct.insert(hash64(s)) {
        acc.feature(feature);
    }
    match r {
        Err(msg) => {
            acc.violation(
                format!("C15|panic|{}", super::rules_driver::truncate(s, 120)),
                format!("from_fen panicked on {:?}: {}", super::rules_driver::truncate(s, 200), msg),
                json!({"kind": "fen_string", "property": "C15", "string": s}),
            );
            None
        }
        Ok(Ok(b)) => {
            // if the string is a well-formed FEN of a legal position the result must be faithful
            faithful_if_wellformed(s, &b, acc);
            Some(true)
        }
        Ok(Err(_)) => {
            if let Some(p) = wellformed_legal(s) {
                acc.violation(
                    format!("C15|rejected|{}", s),
                    format!("well-formed FEN of a legal position rejected: {:?} ({})", s, p.to_fen()),
                    json!({"kind": "fen_string", "property": "C15", "string": s}),
                );
            }
            Some(false)
        }
    }
}

/// Strict reading: exactly six space separated fields, standard alphabet, counters are
/// non-negative integers (halfmove) / positive integers (fullmove), position legal per C01.
pub fn wellformed_legal(s: &str) -> Option<Pos> {
    if s.chars().any(|c| (c.is_whitespace() && c != ' ') || c.is_control()) {
        return None;
    }
    let f: Vec<&str> = s.split(' ').collect();
    if f.len() != 6 || f.iter().any(|x| x.is_empty()) {
        return None;
    }
    if !f[4].bytes().all(|b| b.is_ascii_digit()) || !f[5].bytes().all(|b| b.is_ascii_digit()) {
        return None;
    }
    if f[4].len() > 9 || f[5].len() > 9 {
        return None; // outside the counter range this monitor commits to
    }
    if f[5].parse::<u64>().ok()? == 0 {
        return None;
    }
    // rights: each letter at most once
    if f[2] != "-" {
        let mut seen = [false; 4];
        for ch in f[2].chars() {
            let i = "KQkq".find(ch)?;
            if seen[i] {
                return None;
            }
            seen[i] = true;
        }
    }
    let p = Pos::parse_fen(s).ok()?;
    if is_legal_position(&p) {
        Some(p)
    } else {
        None
    }
}

pub fn faithful_if_wellformed(s: &str, b: &BoardState, acc: &mut Acc) {
    if let Some(p) = wellformed_legal(s) {
        let got = fields_of(b);
        let want = fields_of_pos(&p);
        if got != want {
            acc.violation(
                format!("C15|unfaithful|{}", s),
                format!("FEN {:?} loaded unfaithfully: {}", s, got.diff(&want)),
                json!({"kind": "fen_string", "property": "C15", "string": s}),
            );
        }
    }
}

const FEN_ALPHABET: &[u8] = b"rnbqkpRNBQKP12345678/ wb-KQkqabcdefgh0123456789";

pub fn mutate(rng: &mut Rng, base: &str) -> String {
    let mut fields: Vec<String> = base.split(' ').map(|s| s.to_string()).collect();
    match rng.below(16) {
        0 => {
            fields.pop();
        }
        1 => fields.push(rng.below(100).to_string()),
        2 if !fields.is_empty() => {
            let i = rng.below(fields.len() as u64) as usize;
            fields.remove(i);
        }
        3 if !fields.is_empty() => {
            // break a row length
            let mut rows: Vec<String> = fields[0].split('/').map(|s| s.to_string()).collect();
            let i = rng.below(rows.len() as u64) as usize;
            match rng.below(4) {
                0 => rows[i].push(*rng.pick(&['1', '8', '9', 'p', 'K'])),
                1 => {
                    rows[i].pop();
                }
                2 => rows[i] = "9".into(),
                _ => rows[i] = "0".repeat(rng.range(1, 12) as usize) + &rows[i],
            }
            fields[0] = rows.join("/");
        }
        4 if !fields.is_empty() => {
            let mut rows: Vec<&str> = fields[0].split('/').collect();
            if rng.chance(1, 2) {
                rows.push("8");
            } else {
                rows.pop();
            }
            fields[0] = rows.join("/");
        }
        5 if !fields.is_empty() => {
            // bad character somewhere in the placement
            let mut b: Vec<char> = fields[0].chars().collect();
            if !b.is_empty() {
                let i = rng.below(b.len() as u64) as usize;
                b[i] = if rng.chance(1, 3) { *rng.pick(CONFUSABLES) } else { *rng.pick(&['x', 'H', '?', 'é', '♞', '\t', '.', '9', '0']) };
            }
            fields[0] = b.into_iter().collect();
        }
        6 if fields.len() > 1 => fields[1] = rng.pick(&["", "W", "B", "x", "wb", "-", "ｗ"]).to_string(),
        7 if fields.len() > 2 => fields[2] = rng.pick(&["", "KQkqKQkq", "kqKQ", "AHah", "--", "K-", "é"]).to_string(),
        8 => {
            // en passant field
            if fields.len() > 3 {
                fields[3] = rng.pick(&["", "e", "e33", "e9", "e0", "i3", "ex", "xe", "é", "éé", "3e", "--", "E3", "e3 ", "\u{1F600}", "a\u{0301}"]).to_string();
            }
        }
        9 => {
            if fields.len() > 4 {
                fields[4] = rng.pick(&["-1", "256", "1e3", "", "x", "99999999999999999999999", "+5", "0x10", "１"]).to_string();
            }
        }
        10 => {
            if fields.len() > 5 {
                fields[5] = rng.pick(&["-1", "256", "300", "65536", "", "x", "99999999999999999999999", "+5"]).to_string();
            }
        }
        11 => return fields.join("  "),
        12 => return format!(" {}", fields.join(" ")),
        13 => return format!("{}\n", fields.join(" ")),
        14 => return format!("{}\r\n", fields.join(" ")),
        _ => {
            let s = fields.join(" ");
            let cut = rng.below(s.len() as u64 + 1) as usize;
            let mut c = cut;
            while !s.is_char_boundary(c) {
                c -= 1;
            }
            return s[..c].to_string();
        }
    }
    fields.join(" ")
}

pub fn random_unicode(rng: &mut Rng, len: usize) -> String {
    let mut s = String::new();
    for _ in 0..len {
        let c = match rng.below(6) {
            0 => char::from_u32(rng.below(0x80) as u32),
            1 => char::from_u32(0x80 + rng.below(0x780) as u32),
            2 => char::from_u32(0x800 + rng.below(0xF000) as u32),
            3 => char::from_u32(0x10000 + rng.below(0xFFFF) as u32),
            _ => Some(FEN_ALPHABET[rng.below(FEN_ALPHABET.len() as u64) as usize] as char),
        };
        if let Some(c) = c {
            s.push(c);
        }
    }
    s
}

/// Characters that Unicode-aware predicates (is_numeric, is_alphabetic, is_whitespace,
/// to_lowercase ...) treat like their ASCII look-alikes while ASCII-only conversions do not.
const CONFUSABLES: &[char] = &[
    '\u{FF18}', '\u{FF11}', '\u{0668}', '\u{0663}', '\u{06F8}', '\u{0968}', '\u{00B2}', '\u{00B9}', '\u{2078}', '\u{2167}', '\u{00BD}', '\u{0BE9}', '\u{1D7D6}',
    '\u{FF4B}', '\u{FF2B}', '\u{041A}', '\u{043A}', '\u{212A}', '\u{0131}', '\u{FF50}', '\u{0420}', '\u{FF17}',
    '\u{00A0}', '\u{2003}', '\u{3000}', '\u{200B}', '\u{FEFF}', '\u{2212}', '\u{2013}', '\u{FF0D}', '\u{FF0F}', '\u{2215}',
];

const EP_ALPHABET: &[&str] = &[
    "a", "b", "c", "d", "e", "f", "g", "h", "i", "x", "A", "H", "0", "1", "2", "3", "4", "5", "6", "7", "8", "9", "-", " ", "é", "ß", "♞", "\u{1F600}", "\u{0301}", "٣", "３", "\t", ".", "+", "z", "K", "q", "/", "w", "ｅ",
];

pub fn run(tier: Tier, seed: u64) -> i32 {
    let mut run = Run::new("C15", tier, seed, "exploration");
    run.rule = "evaluation = one string passed to the real from_fen under catch_unwind (or one CLI invocation of the real binary). Families: canonical FENs of legal positions with halfmove 0..150 and fullmove 1..70000 (faithfulness: Ok and every field equal to the oracle's strict parse); field-wise mutations; strings over the FEN alphabet; arbitrary Unicode; truncations and 10^5-character inputs; the ep field exhaustively over all 1-3 symbol strings of a 40-symbol alphabet (ASCII + multi-byte); every character position of two valid FENs replaced by / preceded by each of 32 confusable Unicode characters (digits of other scripts, full-width and Cyrillic letters, exotic blanks and dashes); CLI: `walleye --fen=<s> -T -d 1` must exit 0 without 'panicked' and print a line, also when <s> is a byte string that is not UTF-8 (random bytes, valid FENs with bytes >= 0x80 or truncated/overlong sequences spliced in). Non-trivial = every string (distinct by content); features name the family".into();
    run.assumptions = vec![
        "well-formed FEN = exactly six single-space separated fields, standard letters, each right at most once, counters plain decimal (halfmove >= 0, fullmove >= 1, at most 9 digits) and the position satisfies C01's legality predicate".into(),
        "strings containing NUL or empty strings are not passed through argv".into(),
        "counter values above 70000 are generated only sporadically (up to 9 digits are treated as well-formed)".into(),
    ];
    let positions = match workload::start_positions(seed, 200) {
        Ok(p) => p,
        Err(e) => {
            println!("INCONCLUSIVE harness: {}", e);
            return 2;
        }
    };
    let n_jobs = tier.pick(640usize, 9600);
    let ep_total = EP_ALPHABET.len() + EP_ALPHABET.len().pow(2) + EP_ALPHABET.len().pow(3);
    let ep_jobs = 32usize;
    let results = par::par_map(n_jobs + 1 + ep_jobs, |j| {
        let mut acc = Acc::new();
        let mut rng = Rng::stream(seed, j as u64);
        let mut cli_candidates: Vec<String> = Vec::new();
        if j < n_jobs {
            // faithfulness
            for i in 0..1500 {
                let p = if rng.chance(1, 2) { positions[rng.below(positions.len() as u64) as usize].clone() } else { workload::synth_position(&mut rng) };
                let half = rng.below(151);
                let full = match rng.below(4) {
                    0 => rng.range(1, 255) as u64,
                    1 => rng.range(256, 1000) as u64,
                    2 => rng.range(1000, 70_000) as u64,
                    _ => *rng.pick(&[1u64, 255, 256, 257, 300, 65535, 65536, 70000]),
                };
                let s = p.to_fen6(half, full);
                if i == 0 && j == 0 {
                    acc.sample(json!({"wellformed": s}));
                }
                observe(&s, &mut acc, if full > 255 || half > 255 { "counters_above_255" } else { "wellformed_small_counters" });
                if i < 2 {
                    cli_candidates.push(s);
                }
            }
            // mutations
            for i in 0..1500 {
                let base = positions[rng.below(positions.len() as u64) as usize].to_fen6(rng.below(100), 1 + rng.below(200));
                let mut s = mutate(&mut rng, &base);
                if rng.chance(1, 5) {
                    s = mutate(&mut rng, &s);
                }
                if i == 0 && j == 0 {
                    acc.sample(json!({"mutated": s}));
                }
                if observe(&s, &mut acc, "mutated_field") != Some(true) && i < 3 {
                    cli_candidates.push(s);
                }
            }
            // alphabet noise and unicode
            for i in 0..700 {
                let len = rng.range(0, 90) as usize;
                let s: String = (0..len).map(|_| FEN_ALPHABET[rng.below(FEN_ALPHABET.len() as u64) as usize] as char).collect();
                observe(&s, &mut acc, "alphabet_noise");
                let ulen = rng.range(0, 40) as usize;
                let u = random_unicode(&mut rng, ulen);
                if i == 0 && j == 0 {
                    acc.sample(json!({"unicode": u}));
                }
                if observe(&u, &mut acc, "unicode") != Some(true) && i < 2 {
                    cli_candidates.push(u);
                }
                // unicode inside an otherwise valid frame
                let mut fields: Vec<String> = START_FEN.split(' ').map(|x| x.to_string()).collect();
                fields.push("0".into());
                fields.push("1".into());
                let k = rng.below(6) as usize;
                let ulen = rng.range(1, 4) as usize;
                fields[k] = random_unicode(&mut rng, ulen);
                let s = fields.join(" ");
                if observe(&s, &mut acc, "unicode_in_frame") != Some(true) && i < 2 {
                    cli_candidates.push(s);
                }
            }
            if j < 4 {
                for len in [1000usize, 100_000] {
                    let s: String = (0..len).map(|_| FEN_ALPHABET[rng.below(FEN_ALPHABET.len() as u64) as usize] as char).collect();
                    observe(&s, &mut acc, "over_long");
                    let s2 = format!("{} w - - 0 1", "8/".repeat(len / 2));
                    observe(&s2, &mut acc, "over_long");
                    let s3 = format!("{}/8/8/8/8/8/8/8 w - - 0 1", "1".repeat(len));
                    observe(&s3, &mut acc, "over_long");
                }
            }
        } else if j == n_jobs {
            // every character position of two valid six-field FENs, replaced by (and preceded by)
            // every confusable character
            for base in ["rnbqkbnr/pppppppp/8/8/8/8/PPPPPPPP/RNBQKBNR w KQkq - 0 1", "r3k2r/p1ppqpb1/bn2pnp1/3PN3/1p2P3/2N2Q1p/PPPBBPPP/R3K2R b KQkq e3 12 34"] {
                let chars: Vec<char> = base.chars().collect();
                for i in 0..chars.len() {
                    for &c in CONFUSABLES {
                        let mut a = chars.clone();
                        a[i] = c;
                        let sa: String = a.into_iter().collect();
                        if observe(&sa, &mut acc, "confusable_character") != Some(true) && i % 17 == 0 && c == CONFUSABLES[0] {
                            cli_candidates.push(sa);
                        }
                        let mut b = chars.clone();
                        b.insert(i, c);
                        let sb: String = b.into_iter().collect();
                        observe(&sb, &mut acc, "confusable_character");
                    }
                }
            }
        } else {
            // exhaustive ep-field family, sharded
            let shard = j - n_jobs - 1;
            let n = EP_ALPHABET.len();
            for idx in (shard..ep_total).step_by(ep_jobs) {
                let ep: String = if idx < n {
                    EP_ALPHABET[idx].to_string()
                } else if idx < n + n * n {
                    let k = idx - n;
                    format!("{}{}", EP_ALPHABET[k / n], EP_ALPHABET[k % n])
                } else {
                    let k = idx - n - n * n;
                    format!("{}{}{}", EP_ALPHABET[k / (n * n)], EP_ALPHABET[(k / n) % n], EP_ALPHABET[k % n])
                };
                let s = format!("rnbqkbnr/pppp1ppp/8/8/4P3/8/PPPP1PPP/RNBQKBNR b KQkq {} 0 1", ep);
                if observe(&s, &mut acc, "ep_field_exhaustive") != Some(true) && idx % 9973 == 0 {
                    cli_candidates.push(s);
                }
            }
        }
        (acc, cli_candidates)
    });
    let mut cli: Vec<String> = Vec::new();
    for (a, c) in results {
        run.acc.merge(a, &[]);
        cli.extend(c);
    }
    run.set("exhaustive_families", json!([format!("ep field: all {} strings of 1-3 symbols over a {}-symbol alphabet inside a valid frame", ep_total, EP_ALPHABET.len())]));

    // CLI part: the real binary ---------------------------------------------------------------
    cli.extend(["rnbqkbnr/pppppppp/8/8/8/8/PPPPPPPP/RNBQKBNR w KQkq ex 0 1".to_string(), "rnbqkbnr/pppppppp/8/8/8/8/PPPPPPPP/RNBQKBNR w KQkq é 0 1".to_string(),
        "rnbqkbnr/pppppppp/8/8/8/8/PPPPPPPP/RNBQKBNR w KQkq - 0 300".to_string(), "garbage".to_string(), "8/8/8/8/8/8/8/8 w - - 0 1".to_string()]);
    let cli_n = tier.pick(600usize, 6000).min(cli.len());
    let mut rng = Rng::stream(seed, 0xC11);
    rng.shuffle(&mut cli);
    // keep the fixed cases in
    let cli: Vec<String> = cli.into_iter().filter(|s| !s.is_empty() && !s.contains('\0')).take(cli_n).collect();
    match bb::build_plain() {
        Ok(bin) => {
            let res = par::par_map(cli.len(), |i| {
                let mut acc = Acc::new();
                let s = &cli[i];
                acc.evaluations += 1;
                let wl = wellformed_legal(s).is_some();
                let out = bb::run_cli(&bin, &[&format!("--fen={}", s), "-T", "-d", "1"], 20_000);
                let case = json!({"kind": "cli_fen", "property": "C15", "string": s});
                match out {
                    Err(e) => acc.inconclusive.push(format!("cli run failed to start: {}", e)),
                    Ok(o) => {
                        if acc.distinct.insert(hash64(&format!("cli{}", s))) {
                            acc.feature(if wl { "cli_wellformed" } else { "cli_malformed" });
                        }
                        if o.timed_out {
                            acc.inconclusive.push(format!("cli run timed out on {:?}", s));
                        } else if o.status != Some(0) || o.stderr.contains("panicked") || o.stdout.trim().is_empty() {
                            acc.violation(
                                format!("C15|cli|{}", super::rules_driver::truncate(s, 120)),
                                format!("walleye --fen={:?} -T -d 1: exit status {:?}, stdout {:?}, stderr {:?} (expected an error message or a perft line and exit 0)", super::rules_driver::truncate(s, 160), o.status, super::rules_driver::truncate(o.stdout.trim(), 120), super::rules_driver::truncate(o.stderr.trim(), 200)),
                                case,
                            );
                        } else if !wl && o.stdout.contains("Searched to a depth of") && matches!(par::catch(|| crate::board::BoardState::from_fen(s).is_ok()), Ok(false)) {
                            // the front end prints THAT error: what loading rejects must not be run
                            acc.violation(
                                format!("C15|cli-ran-what-loading-rejects|{}", super::rules_driver::truncate(s, 120)),
                                format!("walleye --fen={:?} -T -d 1 ran a perft ({:?}) although loading this string reports an error", super::rules_driver::truncate(s, 160), super::rules_driver::truncate(o.stdout.trim(), 120)),
                                case,
                            );
                        } else if wl && !o.stdout.contains("Searched to a depth of 1") {
                            acc.violation(
                                format!("C15|cli-rejected|{}", s),
                                format!("walleye --fen={:?} -T -d 1 did not run its perft on a well-formed legal FEN: {:?}", s, o.stdout.trim()),
                                case,
                            );
                        }
                    }
                }
                acc
            });
            for a in res {
                run.acc.merge(a, &[]);
            }
        }
        Err(e) => run.acc.inconclusive.push(format!("plain binary build failed: {}", e)),
    }
    // CLI, arguments that are not text: the quantifier says "arbitrary bytes", and an argv
    // element is a byte string (no NUL), not necessarily UTF-8
    if let Ok(bin) = bb::build_plain() {
        use std::os::unix::ffi::OsStringExt;
        let n_raw = tier.pick(64usize, 640);
        let res = par::par_map(n_raw, |i| {
            let mut acc = Acc::new();
            let mut rng = Rng::stream(seed, 0xC15_0000 + i as u64);
            let mut bytes: Vec<u8> = match i % 4 {
                0 => (0..rng.range(1, 40)).map(|_| 1 + rng.below(255) as u8).collect(),
                1 => {
                    // a valid FEN with one to three bytes replaced by bytes >= 0x80
                    let mut b = format!("{} 0 1", START_FEN).into_bytes();
                    for _ in 0..rng.range(1, 4) {
                        let k = rng.below(b.len() as u64) as usize;
                        b[k] = 0x80 + rng.below(128) as u8;
                    }
                    b
                }
                2 => {
                    // truncated multi-byte sequences and overlong encodings inside a valid frame
                    let frag: &[u8] = [&b"\xc3"[..], &b"\xe2\x82"[..], &b"\xf0\x9f\x98"[..], &b"\xc0\xaf"[..], &b"\xed\xa0\x80"[..], &b"\xff"[..], &b"\xfe\xff"[..]][rng.below(7) as usize];
                    let mut b = format!("{} 0 1", START_FEN).into_bytes();
                    let k = rng.below(b.len() as u64 + 1) as usize;
                    for (o, x) in frag.iter().enumerate() {
                        b.insert(k + o, *x);
                    }
                    b
                }
                _ => {
                    let mut b: Vec<u8> = Vec::new();
                    for _ in 0..rng.range(1, 70) {
                        b.push(if rng.chance(1, 5) { 0x80 + rng.below(128) as u8 } else { FEN_ALPHABET[rng.below(FEN_ALPHABET.len() as u64) as usize] });
                    }
                    b
                }
            };
            bytes.retain(|b| *b != 0);
            if std::str::from_utf8(&bytes).is_ok() {
                bytes.push(0xff);
            }
            let hex: String = bytes.iter().map(|b| format!("{:02x}", b)).collect();
            let mut arg = b"--fen=".to_vec();
            arg.extend(&bytes);
            let args: Vec<std::ffi::OsString> = vec![std::ffi::OsString::from_vec(arg), "-T".into(), "-d".into(), "1".into()];
            acc.evaluations += 1;
            let case = json!({"kind": "cli_fen_bytes", "property": "C15", "hex": hex});
            match bb::run_cli(&bin, &args, 20_000) {
                Err(e) => acc.inconclusive.push(format!("cli run failed to start: {}", e)),
                Ok(o) => {
                    if acc.distinct.insert(hash64(&format!("clibytes{}", hex))) {
                        acc.feature("cli_argument_not_utf8");
                    }
                    if o.timed_out {
                        acc.inconclusive.push(format!("cli run timed out on bytes {}", hex));
                    } else if o.stdout.contains("Searched to a depth of") && matches!(par::catch(|| crate::board::BoardState::from_fen(&String::from_utf8_lossy(&bytes)).is_ok()), Ok(false)) {
                        // bytes that are no text cannot be a FEN; the nearest text (invalid
                        // sequences replaced) is rejected by the loader, so an error must be printed
                        acc.violation(
                            format!("C15|cli-bytes-ran|{}", super::rules_driver::truncate(&hex, 120)),
                            format!("walleye --fen=<bytes {}> -T -d 1 ran a perft ({:?}) instead of printing the load error", super::rules_driver::truncate(&hex, 160), super::rules_driver::truncate(o.stdout.trim(), 120)),
                            case,
                        );
                    } else if o.status != Some(0) || o.stderr.contains("panicked") || o.stdout.trim().is_empty() {
                        acc.violation(
                            format!("C15|cli-bytes|{}", super::rules_driver::truncate(&hex, 120)),
                            format!("walleye --fen=<bytes {}> -T -d 1: exit status {:?}, stdout {:?}, stderr {:?} (expected an error message and exit 0)", super::rules_driver::truncate(&hex, 160), o.status, super::rules_driver::truncate(o.stdout.trim(), 120), super::rules_driver::truncate(o.stderr.trim(), 200)),
                            case,
                        );
                    }
                }
            }
            acc
        });
        for a in res {
            run.acc.merge(a, &[]);
        }
    }
    run.floor_distinct = 1000;
    run.finish()
}
