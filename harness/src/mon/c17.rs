//! C17: unknown input is ignored without changing state or ending the process, isready is always
//! answered, quit and end-of-input end the process promptly (no spinning).

use super::c03::{run_parallel, session_roots};
use super::rules_driver::truncate;
use super::searchlib::History;
use crate::bb::{self, Dir, SpawnOpts};
use crate::ev::{Acc, Run, Tier};
use crate::oracle::*;
use crate::rng::{hash64, Rng};
use crate::sess::*;
use serde_json::json;
use std::path::PathBuf;
use std::time::{Duration, Instant};

const KNOWN_WORDS: &[&str] = &["isready", "ucinewgame", "position", "go", "setoption", "quit", "uci"];

pub fn garbage_line(rng: &mut Rng) -> String {
    // option lines the engine cannot make anything of: the one option it has is switched on by
    // `setoption name DebugLogLevel value Info` and by nothing else, so a truncated, reordered or
    // unknown option line is a line it does not understand (and must leave its state alone)
    if rng.chance(1, 16) {
        return rng
            .pick(&[
                "setoption", "setoption name", "setoption value", "setoption name DebugLogLevel", "setoption name DebugLogLevel value", "setoption name value", "setoption   value   ", "setoption name Hash value 64",
                "setoption name Ponder value true", "setoption name DebugLogLevel value Verbose", "setoption value name", "setoption name Clear Hash", "setoption name", "setoption name DebugLogLevel value",
            ])
            .to_string();
    }
    let line = match rng.below(15) {
        14 => {
            // a command with a stray control character (or an invisible Unicode character) INSIDE
            // its first word: not a command, whatever it looks like once the character is dropped
            let cmd = *rng.pick(&["quit", "isready", "position startpos moves e2e4", "go", "ucinewgame", "position fen 8/8/8/8/8/8/8/K6k w - - 0 1", "setoption name DebugLogLevel value Info", "quit", "position startpos moves d2d4 d7d5"]);
            let first_len = cmd.split(' ').next().unwrap().len();
            let at = 1 + rng.below(first_len as u64 - 1) as usize;
            let ins: &[u8] = *rng.pick(&[&b"\x00"[..], &b"\x07"[..], &b"\x1b"[..], &b"\x7f"[..], &b"\x01"[..], &b"\x1f"[..], &b"\x08"[..], &"\u{200b}".as_bytes()[..], &"\u{ad}".as_bytes()[..], &"\u{feff}".as_bytes()[..], &"\u{9b}".as_bytes()[..]]);
            let mut bytes = cmd.as_bytes()[..at].to_vec();
            bytes.extend_from_slice(ins);
            bytes.extend_from_slice(&cmd.as_bytes()[at..]);
            let mut hex = String::from("RAWHEX:");
            for b in bytes {
                hex.push_str(&format!("{:02x}", b));
            }
            return hex;
        }
        13 => {
            // a long unknown line made of command words: whatever piece of it a reader might
            // mistake for a line of its own (a bounded or chunked read) would be a real command
            let want = if rng.chance(1, 3) { 60_000 + rng.below(200_000) as usize } else { 3_000 + rng.below(30_000) as usize };
            let mut t = String::from("zz");
            while t.len() < want {
                t.push(' ');
                t.push_str(*rng.pick(&["isready", "quit", "position startpos moves e2e4", "go", "ucinewgame", "uci", "isready", "quit", "position fen 8/8/8/8/8/8/8/K6k w - - 0 1", "setoption name DebugLogLevel value Info", "x"]));
            }
            t
        }
        11 => {
            // NUL bytes and lone carriage returns inside an otherwise harmless line
            let mut hex = String::from("RAWHEX:");
            let n = 1 + rng.below(10) as usize;
            for i in 0..n {
                let b: u8 = if i == 0 { *rng.pick(&[b'w', 0x00, b'\r']) } else { *rng.pick(&[0x00u8, b'\r', b'a', b' ', 0x00, b'\t']) };
                hex.push_str(&format!("{:02x}", b));
            }
            // a line whose only visible word would be a command is not what is meant here
            return hex;
        }
        12 => {
            // a very long line (up to a megabyte)
            let n = if rng.chance(1, 4) { 1_000_000 } else { 5_000 + rng.below(60_000) as usize };
            "y".repeat(n)
        }
        10 => {
            // bytes that are not valid UTF-8 (marked, sent raw by the script runner)
            let n = if rng.chance(1, 3) { 20 + rng.below(200) as usize } else { 1 + rng.below(12) as usize };
            let mut hex = String::from("RAWHEX:");
            for i in 0..n {
                let b: u8 = if i == 0 { b'z' } else { *rng.pick(&[0xffu8, 0xfe, 0xc0, 0x80, 0xed, 0xa0, b'a', b' ', 0xf5]) };
                hex.push_str(&format!("{:02x}", b));
            }
            return hex;
        }
        0 => String::new(),
        1 => " ".repeat(1 + rng.below(6) as usize),
        2 => "\t \t".to_string(),
        3 => rng.pick(&["debug on", "stop", "ponderhit", "register later", "xyzzy", "d", "eval", "bench", "perft 4", "help", "Quit", "ISREADY", "go2", "positions startpos", "isready2"]).to_string(),
        4 => {
            // random printable ASCII
            let n = 1 + rng.below(40) as usize;
            (0..n).map(|_| (32 + rng.below(95) as u8) as char).collect()
        }
        5 => {
            // unicode (short, or long with characters of mixed byte widths)
            let n = if rng.chance(1, 3) { 20 + rng.below(300) as usize } else { 1 + rng.below(12) as usize };
            (0..n).filter_map(|_| char::from_u32(match rng.below(3) { 0 => 0xA0 + rng.below(0x500) as u32, 1 => 0x4E00 + rng.below(0x2000) as u32, _ => 0x1F300 + rng.below(0x300) as u32 })).collect()
        }
        6 => format!("{} {}", rng.pick(&["foo", "stop", "debug", "ponder"]), rng.pick(&["position startpos", "go wtime 1000", "quit", "isready"])),
        7 => "x".repeat(1 + rng.below(3000) as usize),
        8 => "\u{feff}hello".to_string(),
        _ => format!("{}{}", rng.pick(&["#", "//", ";", "-", "!"]), rng.pick(&["comment", " isready", "quit"])),
    };
    // the first token must not be a command word, otherwise the line is not "unknown input"
    let first = line.split_whitespace().next().unwrap_or("");
    if KNOWN_WORDS.contains(&first) {
        format!("x{}", line)
    } else {
        line
    }
}

/// Well-formed commands written with odd whitespace (surplus blanks, tabs, trailing \r).
pub fn odd_whitespace(rng: &mut Rng, cmd: &str) -> String {
    // a third of the lines also use white space beyond blank and tab: vertical tab, form feed,
    // next line, no-break space, em space, ideographic space, line separator, ogham space mark -
    // the engine's normaliser treats every Unicode white-space character as a separator
    const EXOTIC: &[&str] = &["\x0b", "\x0c", "\u{85}", "\u{a0}", "\u{2003}", "\u{3000}", "\u{2028}", "\u{1680}", " \u{a0}", "\x0b "];
    let exotic = rng.chance(1, 3);
    let mut out = String::new();
    if rng.chance(1, 2) {
        out.push_str(if exotic && rng.chance(1, 2) { *rng.pick(EXOTIC) } else { *rng.pick(&[" ", "  ", "\t", " \t "]) });
    }
    for (i, tok) in cmd.split(' ').enumerate() {
        if i > 0 {
            out.push_str(if exotic && rng.chance(1, 2) { *rng.pick(EXOTIC) } else { *rng.pick(&[" ", "  ", "\t", " \t", "   "]) });
        }
        out.push_str(tok);
    }
    if rng.chance(1, 2) {
        out.push_str(if exotic && rng.chance(1, 2) { *rng.pick(EXOTIC) } else { *rng.pick(&[" ", "\t", "  ", "\r", " \r"]) });
    }
    out
}

/// go with unknown tokens (zero slice for the mover so that the answer is deterministic)
fn go_with_unknown_tokens(rng: &mut Rng) -> String {
    let mut parts = vec!["go".to_string()];
    let n = rng.below(4);
    for _ in 0..n {
        parts.push(rng.pick(&["infinite", "ponder", "depth", "nodes", "mate", "searchmoves", "e2e4", "movetime", "foo", "7"]).to_string());
    }
    parts.join(" ")
}

struct Script {
    /// (line, is_garbage)
    lines: Vec<(String, bool)>,
}

fn make_script(rng: &mut Rng, roots: &[History]) -> Script {
    let mut lines: Vec<(String, bool)> = Vec::new();
    let n = 4 + rng.below(10);
    for _ in 0..n {
        let h = &roots[rng.below(roots.len() as u64) as usize];
        lines.push((h.command(), false));
        let chain = 1 + rng.below(3);
        for _ in 0..chain {
            lines.push((go_with_unknown_tokens(rng), false));
        }
        if rng.chance(1, 3) {
            lines.push(("ucinewgame".into(), false));
        }
        if rng.chance(1, 3) {
            lines.push(("isready".into(), false));
        }
    }
    // the engine's one option, in both spellings GUIs use, somewhere early in half of the scripts
    // (it switches the log file on: unknown lines are then also written there)
    if rng.chance(1, 2) {
        let at = rng.below(3.min(lines.len() as u64 + 1)) as usize;
        let text = *rng.pick(&["setoption name DebugLogLevel value Info", "setoption name DebugLogLevel value None", "setoption name DebugLogLevel value Info", "setoption DebugLogLevel Info"]);
        lines.insert(at, (text.into(), false));
    }
    // garbage inserted at random points
    let g = 3 + rng.below(30);
    for _ in 0..g {
        let at = rng.below(lines.len() as u64 + 1) as usize;
        lines.insert(at, (garbage_line(rng), true));
    }
    Script { lines }
}

/// Run a script; returns the sequence of bestmove answers (None = session broke).
fn run_script(bin: &PathBuf, script: &Script, with_garbage: bool, odd_ws: Option<&mut Rng>, acc: &mut Acc, label: &str) -> Option<(Vec<String>, Sess)> {
    let mut s = match Sess::start(bin, SpawnOpts::default(), false) {
        Ok(s) => s,
        Err(e) => {
            acc.inconclusive.push(format!("session start failed: {}", e));
            return None;
        }
    };
    let mut ws_rng = odd_ws;
    let mut answers = Vec::new();
    let mut since_ready = 0;
    for (line, is_garbage) in &script.lines {
        if *is_garbage && !with_garbage {
            continue;
        }
        let text = match (&mut ws_rng, is_garbage) {
            (Some(r), false) => odd_whitespace(r, line),
            _ => line.clone(),
        };
        if !*is_garbage && line.starts_with("go") {
            let t0 = s.eng.send(&text);
            if crate::sess::wants_stop(line) {
                s.eng.send("stop");
            }
            match s.eng.wait_for(|l| l.starts_with("bestmove"), WATCHDOG) {
                Some(i) => answers.push(s.eng.transcript[i].line.clone()),
                None => {
                    report_dead(&mut s, acc, label, &format!("no bestmove for '{}'", truncate(&text, 80)));
                    return None;
                }
            }
            let _ = t0;
            s.eng.drain(Duration::from_millis(3));
        } else if !*is_garbage && line == "isready" {
            s.eng.send(&text);
            if s.eng.wait_for(|l| l == "readyok", WATCHDOG).is_none() {
                report_dead(&mut s, acc, label, "isready not answered with readyok");
                return None;
            }
        } else {
            if let Some(hex) = text.strip_prefix("RAWHEX:") {
                let mut bytes: Vec<u8> = (0..hex.len() / 2).filter_map(|i| u8::from_str_radix(&hex[2 * i..2 * i + 2], 16).ok()).collect();
                bytes.push(b'\n');
                s.eng.send_raw(&bytes);
            } else {
                s.eng.send(&text);
            }
            since_ready += 1;
        }
        // (a) isready is always answered, probed right after garbage
        if *is_garbage && (since_ready % 3 == 0) {
            acc.evaluations += 1;
            if !s.isready(WATCHDOG) {
                report_dead(&mut s, acc, label, &format!("isready after the unknown line {:?} was not answered", truncate(&text, 80)));
                return None;
            }
        }
    }
    if !s.isready(WATCHDOG) {
        report_dead(&mut s, acc, label, "final isready not answered");
        return None;
    }
    if let Some(err) = s.stderr_has_panic() {
        acc.violation(format!("C17|panic|{}", label), format!("'panicked' on stderr during a session with unknown input: {}", truncate(&err, 300)), json!({"kind": "session", "property": "C17", "script": sent(&s)}));
    }
    Some((answers, s))
}

fn sent(s: &Sess) -> Vec<String> {
    s.eng.transcript.iter().filter(|e| e.dir == Dir::Sent).map(|e| e.line.clone()).collect()
}

fn report_dead(s: &mut Sess, acc: &mut Acc, label: &str, what: &str) {
    let case = json!({"kind": "session", "property": "C17", "script": sent(s), "transcript_tail": s.eng.transcript_text(20)});
    if let Some(st) = s.eng.exited() {
        acc.violation(format!("C17|exited|{}", label), format!("{}: the engine process ended (status {:?}); stderr: {}", what, st, truncate(&s.eng.stderr_text(), 300)), case);
    } else if s.eng.thread_count() <= 1 {
        acc.violation(format!("C17|stuck|{}", label), format!("{} although the process is alive and no search is running", what), case);
    } else {
        acc.inconclusive.push(format!("watchdog: {} (search thread alive)", what));
    }
}

/// quit: process gone within 2 s. Returns Some(ms) when it exited.
fn check_quit(mut s: Sess, acc: &mut Acc, label: &str, slow: &mut Vec<String>) {
    acc.evaluations += 1;
    let script = sent(&s);
    let t0 = Instant::now();
    s.eng.send("quit");
    match s.eng.wait_exit(Duration::from_secs(2)) {
        Some(_) => acc.max("max_quit_ms", t0.elapsed().as_millis() as u64),
        None => {
            // solo confirmation later
            slow.push(serde_json::to_string(&script).unwrap_or_default());
            let _ = label;
        }
    }
}

/// Close stdin at a chosen point; the process must end within pending slice + 2 s and must not
/// burn CPU while it is still there.
fn check_eof(bin: &PathBuf, rng: &mut Rng, roots: &[History], acc: &mut Acc, sid: usize) {
    acc.evaluations += 1;
    let mut eng = match bb::Engine::spawn(bin, &SpawnOpts::default()) {
        Ok(e) => e,
        Err(e) => {
            acc.inconclusive.push(format!("spawn failed: {}", e));
            return;
        }
    };
    let point = rng.below(6);
    let mut pending_ms = 0u64;
    let mut desc = String::new();
    match point {
        0 => desc = "before uci".into(),
        1 => {
            eng.send("uci");
            let _ = eng.wait_for(|l| l == "uciok", WATCHDOG);
            desc = "right after the handshake".into();
        }
        5 => {
            // the stream ends in the middle of a line (no final newline)
            eng.send("uci");
            let _ = eng.wait_for(|l| l == "uciok", WATCHDOG);
            let tail: &[u8] = *rng.pick(&[&b"isready"[..], &b"xyz"[..], &b"position startpos"[..], &b"isre"[..], &b" "[..], &b"\r"[..]]);
            eng.send_raw(tail);
            desc = format!("after an unterminated final line {:?}", String::from_utf8_lossy(tail));
        }
        2 | 3 => {
            eng.send("uci");
            let _ = eng.wait_for(|l| l == "uciok", WATCHDOG);
            for _ in 0..(1 + rng.below(3)) {
                let h = &roots[rng.below(roots.len() as u64) as usize];
                eng.send(&h.command());
                eng.send("go");
                let _ = eng.wait_for(|l| l.starts_with("bestmove"), WATCHDOG);
                if rng.chance(1, 2) {
                    eng.send(&garbage_line(rng));
                }
            }
            desc = "mid-session after some games".into();
        }
        _ => {
            eng.send("uci");
            let _ = eng.wait_for(|l| l == "uciok", WATCHDOG);
            let h = &roots[rng.below(roots.len() as u64) as usize];
            eng.send(&h.command());
            let ms = 20 + rng.below(120);
            let clock = 100 + (ms as f64 / 0.8).round() as u64;
            eng.send(&format!("go {} {} movestogo 1", if h.end.stm == Color::White { "wtime" } else { "btime" }, clock));
            pending_ms = ms;
            desc = format!("right after a go with a {} ms slice", ms);
        }
    }
    acc.feature(&format!("eof_point_{}", point));
    acc.distinct.insert(hash64(&format!("eof|{}|{}", point, sid)));
    let script: Vec<String> = eng.transcript.iter().filter(|e| e.dir == Dir::Sent).map(|e| e.line.clone()).collect();
    eng.close_stdin();
    // let a pending search finish, then watch the process
    let grace = Duration::from_millis(pending_ms + 150);
    if eng.wait_exit(grace).is_some() {
        acc.count("eof_exited_within_grace", 1);
        return;
    }
    let c0 = eng.cpu_seconds();
    let t0 = Instant::now();
    let exited = eng.wait_exit(Duration::from_millis(300)).is_some();
    let wall = t0.elapsed().as_secs_f64();
    let c1 = eng.cpu_seconds();
    let case = json!({"kind": "eof", "property": "C17", "script": script, "closed": desc});
    if !exited {
        if let (Some(a), Some(b)) = (c0, c1) {
            let cpu = b - a;
            if cpu > 0.6 * wall {
                acc.violation(
                    format!("C17|eof-spin|{}", point),
                    format!("standard input closed {}: the process stays alive and burns CPU ({:.0} ms CPU in {:.0} ms wall, {} threads)", desc, cpu * 1000.0, wall * 1000.0, eng.thread_count()),
                    case,
                );
                return;
            }
        }
        if eng.wait_exit(Duration::from_millis(1600)).is_none() {
            acc.violation(format!("C17|eof-alive|{}", point), format!("standard input closed {}: the process is still alive {} ms later ({} threads)", desc, pending_ms + 2050, eng.thread_count()), case);
        }
    }
}

/// Standard input lost without an end of file: from some point on every read of the process
/// fails (strace fault injection, EIO). Whatever the engine makes of that - ending with an error
/// is fine - it must not stay behind as a process that spins.
fn check_input_failure(bin: &PathBuf, rng: &mut Rng, acc: &mut Acc, sid: usize) {
    let mut opts = SpawnOpts::default();
    // reads of the start-up (dynamic loader) come first; the failure begins after 6-30 more
    let from = 12 + rng.below(25) as u32;
    opts.strace_read_fail_from = Some(from);
    let mut eng = match bb::Engine::spawn(bin, &opts) {
        Ok(e) => e,
        Err(e) => {
            acc.inconclusive.push(format!("spawn under strace failed: {}", e));
            return;
        }
    };
    eng.send("uci");
    if eng.wait_for(|l| l == "uciok", WATCHDOG).is_none() {
        // the failure began before the handshake was read: nothing to judge but the exit
        if eng.wait_exit(Duration::from_secs(3)).is_none() && eng.cpu_seconds().is_some() {
            acc.inconclusive.push("input failure before the handshake: process still alive".into());
        }
        return;
    }
    acc.evaluations += 1;
    // one line per read until the engine stops answering (= its reads have begun to fail)
    let mut answered = 0;
    for _ in 0..60 {
        eng.send(if rng.chance(1, 4) { "xyzzy" } else { "isready" });
        if eng.transcript.last().map(|e| e.line == "isready").unwrap_or(false) {
            if eng.wait_for(|l| l == "readyok", Duration::from_millis(400)).is_none() {
                break;
            }
            answered += 1;
        }
        if eng.exited().is_some() {
            break;
        }
    }
    acc.feature("input_failure_after_the_handshake");
    acc.distinct.insert(hash64(&format!("inputfail|{}|{}", from, sid)));
    acc.count("isready_answered_before_the_input_failed", answered);
    let script: Vec<String> = eng.transcript.iter().filter(|e| e.dir == Dir::Sent).map(|e| e.line.clone()).collect();
    let case = json!({"kind": "session", "property": "C17", "script": script, "fault": format!("strace -e inject=read:error=EIO:when={}+", from)});
    if eng.wait_exit(Duration::from_millis(500)).is_some() {
        acc.count("input_failure_process_ended", 1);
        return;
    }
    let c0 = eng.cpu_seconds();
    let t0 = Instant::now();
    let exited = eng.wait_exit(Duration::from_millis(600)).is_some();
    let wall = t0.elapsed().as_secs_f64();
    let c1 = eng.cpu_seconds();
    if !exited {
        if let (Some(a), Some(b)) = (c0, c1) {
            // under strace every failing read is a round trip through the tracer, so the engine's own
            // CPU share stays well below 100 % even when it spins; a process that waits for input
            // uses none at all (and cannot be waiting here: its reads return at once with an error)
            if b - a > 0.08 * wall {
                acc.violation(
                    format!("C17|input-failure-spin|{}", sid % 4),
                    format!("standard input lost without an end of file (every read fails with EIO from the {}th on, {} isready answered before): the process stays alive and burns CPU ({:.0} ms CPU in {:.0} ms wall)", from, answered, (b - a) * 1000.0, wall * 1000.0),
                    case,
                );
                return;
            }
        }
        acc.count("input_failure_process_alive_and_idle", 1);
    }
}

pub fn run(tier: Tier, seed: u64) -> i32 {
    let mut run = Run::new("C17", tier, seed, "exploration");
    run.rule = "evaluation = one observation on a session of the real binary: (a) an isready probe after unknown lines, (b) the bestmove sequence of a script of well-formed commands (position + zero-slice go chains with unknown go tokens, ucinewgame, isready) with unknown/garbage lines inserted at random points compared with the same script without them, and with surplus blanks/tabs/trailing CR in the well-formed commands, (c) no 'panicked' on stderr and no exit, (d) quit ends the process within 2 s (solo-confirmed), (b') the same script with its unknown lines written without waiting for any reply (one write / per line / pieces that cut lines in two) and ended by quit or end of input: same answers in the same order, the process gone within 2 s of the last answer and not spinning, (e) closing stdin before uci / after the handshake / mid-session / right after a timed go / in the middle of a line (no final newline) ends the process within slice + 2 s and it does not burn CPU meanwhile (process CPU time vs wall time over 300 ms). Unknown lines: empty, blanks/tabs, unknown words, random printable ASCII, Unicode, BOM, comment-like, 3000-character lines, lines of up to a megabyte, long lines made of command words, command words with a control or invisible character inside, NUL bytes and lone carriage returns, bytes that are not valid UTF-8; never starting with a command word. Non-trivial = every script / EOF session; distinct by seed index (g) input failure: from a point after the handshake on every read system call of the process fails with EIO (strace fault injection) - standard input lost without an end of file; the process may end with an error, it must not stay alive burning CPU.".into();
    run.assumptions = vec![
        "garbage lines include byte sequences that are not valid UTF-8 (a line is whatever ends with a newline)".into(),
        "lines that begin with a known command word but are malformed are not 'unknown input' and are excluded".into(),
        "go lines carry no usable clock so the answers are deterministic (zero allowance)".into(),
    ];
    let plain = match bb::build_plain() {
        Ok(b) => b,
        Err(e) => {
            println!("INCONCLUSIVE {}", e);
            return 2;
        }
    };
    let roots = session_roots(seed ^ 17, tier.pick(80, 600));
    let n_scripts = tier.pick(160usize, 3000);
    // strace may be unavailable (ptrace forbidden): then the input-failure sessions are left out
    let strace_ok = std::process::Command::new("strace").args(["-f", "-q", "-e", "trace=read", "-e", "inject=read:error=EIO:when=60000+", "-o", "/dev/null", "true"]).output().map(|o| o.status.success()).unwrap_or(false);
    run.set("strace_read_fault_injection_available", json!(strace_ok));
    let res = run_parallel(16, n_scripts, |sid| {
        let mut acc = Acc::new();
        let mut slow = Vec::new();
        let mut rng = Rng::stream(seed, 0xC17_0000 + sid as u64);
        let script = make_script(&mut rng, &roots);
        let label = format!("script{}", sid);
        let n_garbage = script.lines.iter().filter(|l| l.1).count();
        let base = run_script(&plain, &script, false, None, &mut acc, &label);
        let with = run_script(&plain, &script, true, None, &mut acc, &label);
        let mut ws_rng = Rng::stream(seed, 0xC17_8000 + sid as u64);
        let odd = run_script(&plain, &script, true, Some(&mut ws_rng), &mut acc, &label);
        acc.distinct.insert(hash64(&format!("script|{}", sid)));
        acc.feature("script_with_garbage");
        if script.lines.iter().any(|l| !l.1 && l.0.starts_with("setoption") && l.0.contains("Info")) {
            acc.feature("script_with_log_file_switched_on");
        }
        acc.count("garbage_lines", n_garbage as u64);
        if sid < 2 {
            acc.sample(json!({"script_head": script.lines.iter().take(8).map(|(l, g)| format!("{}{}", if *g { "[garbage] " } else { "" }, truncate(l, 70))).collect::<Vec<_>>()}));
        }
        let base_answers: Option<Vec<String>> = base.as_ref().map(|b| b.0.clone());
        if let (Some((a0, s0)), Some((a1, s1))) = (base, with) {
            acc.evaluations += 1;
            if a0 != a1 {
                let at = a0.iter().zip(a1.iter()).position(|(x, y)| x != y).unwrap_or(a0.len().min(a1.len()));
                acc.violation(
                    format!("C17|state|{}", label),
                    format!("inserting {} unknown lines changed the answers: answer #{} is {:?} with them and {:?} without", n_garbage, at + 1, a1.get(at), a0.get(at)),
                    json!({"kind": "session", "property": "C17", "script": sent(&s1)}),
                );
            }
            if let Some((a2, s2)) = odd {
                acc.evaluations += 1;
                acc.feature("script_with_odd_whitespace");
                if a0 != a2 {
                    let at = a0.iter().zip(a2.iter()).position(|(x, y)| x != y).unwrap_or(a0.len().min(a2.len()));
                    acc.violation(
                        format!("C17|whitespace|{}", label),
                        format!("surplus blanks/tabs/CR in well-formed commands changed the answers: answer #{} is {:?} instead of {:?}", at + 1, a2.get(at), a0.get(at)),
                        json!({"kind": "session", "property": "C17", "script": sent(&s2)}),
                    );
                }
                check_quit(s2, &mut acc, &label, &mut slow);
            }
            check_quit(s1, &mut acc, &label, &mut slow);
            drop(s0);
        }
        // the same script with its garbage, written without waiting for any reply and ended by
        // quit or end of input: same answers, and the process goes away promptly
        if let Some(a0) = &base_answers {
            use super::pipe::{self, Chunking, End};
            let lines: Vec<String> = script.lines.iter().map(|l| l.0.clone()).collect();
            let end = if rng.chance(1, 2) { End::Eof } else { End::Quit };
            let chunking = match rng.below(3) { 0 => Chunking::PerLine, 1 => Chunking::Pieces(1 + rng.below(60) as usize), _ => Chunking::OneWrite };
            match pipe::run_pipelined(&plain, &SpawnOpts::default(), &lines, end, chunking, seed ^ sid as u64) {
                Ok(obs) => {
                    acc.evaluations += 1;
                    acc.feature(if end == End::Eof { "pipelined_script_then_end_of_input" } else { "pipelined_script_then_quit" });
                    let j = pipe::judge(&lines, &obs);
                    if let Some(i) = &j.inconclusive {
                        acc.inconclusive.push(i.clone());
                    }
                    let case = pipe::case_json("C17", &lines, end, chunking, Some(&obs));
                    for (sig, what) in &j.problems {
                        acc.violation(format!("C17|pipelined|{}|{}", sig, label), format!("script with unknown lines written without waiting for replies ({:?}, {:?}): {}", chunking, end, what), case.clone());
                    }
                    if j.problems.is_empty() && j.inconclusive.is_none() {
                        let got: Vec<String> = j.answers.iter().map(|a| format!("bestmove {}", a)).collect();
                        if &got != a0 {
                            let at = a0.iter().zip(got.iter()).position(|(x, y)| x != y).unwrap_or(a0.len().min(got.len()));
                            acc.violation(format!("C17|pipelined-state|{}", label), format!("the script with its unknown lines, written without waiting for replies, is answered differently from the clean script sent step by step: answer #{} is {:?} instead of {:?}", at + 1, got.get(at), a0.get(at)), case.clone());
                        }
                    }
                    for (sig, what) in pipe::lifecycle_problems(&obs, end) {
                        acc.violation(format!("C17|pipelined-{}|{}", sig, label), format!("script written without waiting for replies ({:?}): {}", chunking, what), case.clone());
                    }
                    if let Some(ms) = obs.exit_ms {
                        acc.max("max_pipelined_exit_ms", ms);
                    }
                }
                Err(e) => acc.inconclusive.push(format!("pipelined session failed to start: {}", e)),
            }
        }
        check_eof(&plain, &mut rng, &roots, &mut acc, sid);
        if sid % 4 == 1 && strace_ok {
            check_input_failure(&plain, &mut rng, &mut acc, sid);
        }
        (acc, slow)
    });
    let mut slow_all = Vec::new();
    for (a, sl) in res {
        run.acc.merge(a, &["max_quit_ms", "max_pipelined_exit_ms"]);
        slow_all.extend(sl);
    }
    // solo confirmation: quit not honoured within 2 s
    for sc in slow_all.iter().take(5) {
        let lines: Vec<String> = serde_json::from_str(sc).unwrap_or_default();
        let mut fails = 0;
        for _ in 0..3 {
            if let Ok(mut e) = bb::Engine::spawn(&plain, &SpawnOpts::default()) {
                for l in &lines {
                    e.send(l);
                    if l.starts_with("go") {
                        let _ = e.wait_for(|x| x.starts_with("bestmove"), WATCHDOG);
                    }
                }
                e.send("quit");
                if e.wait_exit(Duration::from_secs(2)).is_none() {
                    fails += 1;
                }
            }
        }
        if fails == 3 {
            run.acc.violation(format!("C17|quit|{}", hash64(sc)), "the process is still alive 2 s after quit (three solo re-runs)".into(), json!({"kind": "session", "property": "C17", "script": lines}));
        } else {
            run.acc.count("quit_slow_outliers", 1);
        }
    }
    unknown_go_tokens_timed(&mut run, &plain, &roots);
    super::sanit::c17_valgrind(&mut run, &plain, &roots);
    run.floor_distinct = 50;
    run.finish()
}

/// Unknown tokens inside a `go` that carries clocks: they must not change what the engine
/// understood. Observable without hooks through the exact lower bound on the delay: the plan P of
/// the clean line is computed by the repository's own parser and time policy; the same line with
/// unknown tokens inserted between its name/value pairs must not be answered before P.
fn unknown_go_tokens_timed(run: &mut Run, plain: &PathBuf, roots: &[History]) {
    let seed = run.seed;
    let sessions = run.tier.pick(16usize, 160);
    let res = run_parallel(8, sessions, |sid| {
        let mut acc = Acc::new();
        let mut rng = Rng::stream(seed, 0xC17_4000 + sid as u64);
        let mut s = match Sess::start(plain, SpawnOpts::default(), false) {
            Ok(s) => s,
            Err(e) => {
                acc.inconclusive.push(format!("session start failed: {}", e));
                return acc;
            }
        };
        for i in 0..8 {
            let h = &roots[rng.below(roots.len() as u64) as usize];
            s.position(h);
            let (mine, theirs) = if h.end.stm == Color::White { ("wtime", "btime") } else { ("btime", "wtime") };
            let ms = 25 + rng.below(50);
            let clock = 100 + (ms as f64 / 0.8).round() as u64;
            let pairs: Vec<String> = vec![format!("{} {}", mine, clock), "movestogo 1".to_string(), format!("{} {}", theirs, 1000 + rng.below(5000))];
            let clean = format!("go {}", pairs.join(" "));
            let plan = match plan_for(&clean, h.end.stm) {
                Ok(p) => p,
                Err(_) => continue,
            };
            // unknown tokens only between (or around) the name/value pairs
            let mut parts: Vec<String> = Vec::new();
            let mut order = pairs.clone();
            rng.shuffle(&mut order);
            let n_unknown = 1 + rng.below(3);
            let mut slots: Vec<usize> = (0..=order.len()).collect();
            rng.shuffle(&mut slots);
            let slots: Vec<usize> = slots.into_iter().take(n_unknown as usize).collect();
            for (k, pr) in order.iter().enumerate() {
                if slots.contains(&k) {
                    parts.push(rng.pick(&["ponder", "infinite", "foo", "searchmoves", "depth", "nodes", "mate", "movetime"]).to_string());
                }
                parts.push(pr.clone());
            }
            if slots.contains(&order.len()) {
                parts.push(rng.pick(&["ponder", "infinite", "bar"]).to_string());
            }
            if rng.chance(1, 3) {
                // a long run of unknown words (token counts around 2^8, 2^9, 2^10)
                let n = *rng.pick(&[200usize, 250, 254, 255, 256, 257, 300, 512, 1030]);
                let junk: Vec<&str> = (0..n).map(|_| *rng.pick(&["foo", "bar", "infinite", "ponder", "xyzzy"])).collect();
                if rng.chance(1, 2) { parts.insert(0, junk.join(" ")) } else { parts.push(junk.join(" ")) }
                acc.feature("timed_go_with_hundreds_of_unknown_tokens");
            }
            let dirty_args = parts.join(" ");
            let g = s.go(&dirty_args, WATCHDOG);
            acc.evaluations += 1;
            let lat = match g.latency_ms() {
                Some(l) => l,
                None => {
                    // the plan is below 100 ms: with the watchdog gone by, an engine that is alive
                    // and does not answer isready within 5 more seconds has stopped serving
                    if s.eng.exited().is_none() && !s.isready(Duration::from_secs(5)) && s.eng.exited().is_none() {
                        acc.violation(
                            format!("C17|go-tokens-hang|{}", dirty_args.split(' ').count()),
                            format!("'go' with {} tokens (unknown words among the clock values; clean line '{}', plan {} ms) is not answered and isready is not answered afterwards: the process is alive and has stopped serving", dirty_args.split(' ').count() + 1, clean, plan),
                            json!({"kind": "session", "property": "C17", "script": [h.command(), format!("go {}", dirty_args), "isready"]}),
                        );
                    } else {
                        acc.inconclusive.push("timed go with unknown tokens not answered".into());
                    }
                    return acc;
                }
            };
            s.eng.drain(Duration::from_millis(3));
            acc.distinct.insert(hash64(&format!("ugt|{}|{}", sid, i)));
            acc.feature("timed_go_with_unknown_tokens");
            if sid == 0 && i == 0 {
                acc.sample(json!({"clean": clean, "with_unknown_tokens": format!("go {}", dirty_args), "plan_ms_of_clean_line": plan as u64, "measured_ms": (lat * 10.0).round() / 10.0}));
            }
            if lat < plan as f64 - 1.0 {
                acc.violation(
                    format!("C17|go-tokens|{}", dirty_args),
                    format!("'go {}' was answered after {:.1} ms although the same line without the unknown tokens ('{}') plans {} ms: the unknown tokens changed what the engine understood", dirty_args, lat, clean, plan),
                    json!({"kind": "session", "property": "C17", "script": [h.command(), format!("go {}", dirty_args)]}),
                );
            }
        }
        acc
    });
    for a in res {
        run.acc.merge(a, &[]);
    }
}
