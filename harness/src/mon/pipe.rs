//! Pipelined sessions: the whole script is written to the engine's standard input without
//! waiting for any reply (in one write, line by line, or in arbitrary byte chunks that cut lines
//! in two), optionally followed by `quit` or by closing the stream. Commands therefore arrive
//! while a search is running and sit in the pipe until the I/O thread reads again - the timing a
//! GUI produces when it sends `position` + `go` + `isready` back to back. The lock-step sessions
//! of C03/C08/C16/C17 never do that.
//!
//! The offline checker works on the order of `bestmove` / `readyok` lines on standard output:
//! both are printed by the I/O thread itself before it reads the next command, so their order
//! must be exactly the order of the `go` / `isready` lines in the script (info lines of detached
//! search threads may fall anywhere and are ignored here).

use super::rules_driver::truncate;
use super::searchlib::History;
use crate::bb::{Dir, Engine, SpawnOpts};
use crate::ev::Acc;
use crate::oracle::*;
use crate::rng::Rng;
use crate::sess::{go_args, plan_for, WATCHDOG};
use serde_json::{json, Value};
use std::path::Path;
use std::time::{Duration, Instant};

#[derive(Clone, Copy, PartialEq, Eq, Debug)]
pub enum End {
    /// leave the stream open (the driver kills the process afterwards)
    Open,
    Quit,
    Eof,
}

#[derive(Clone, Copy, PartialEq, Eq, Debug)]
pub enum Chunking {
    OneWrite,
    PerLine,
    /// random pieces of 1..n bytes with a short pause between them (lines are cut in two)
    Pieces(usize),
}

#[derive(Clone, Debug)]
pub struct PipeObs {
    /// ('B', text after "bestmove ") or ('R', "")
    pub tokens: Vec<(char, String)>,
    pub expected: Vec<char>,
    pub exited: Option<Option<i32>>,
    /// ms between the last expected answer (or the end of writing) and process exit
    pub exit_ms: Option<u64>,
    pub alive_threads: usize,
    pub cpu_burn: Option<(f64, f64)>,
    pub stderr: String,
    pub transcript: Vec<String>,
    pub complete: bool,
    pub wait_budget_ms: u64,
}

/// Tokens the script must produce, in order ('B' per go, 'R' per isready), up to a `quit`.
pub fn expected_tokens(lines: &[String]) -> Vec<char> {
    let mut out = Vec::new();
    for l in lines {
        let first = l.split_whitespace().next().unwrap_or("");
        // the engine dispatches on the first blank-separated word of the cleaned line
        match first {
            "go" => out.push('B'),
            "isready" => out.push('R'),
            "quit" => break,
            _ => {}
        }
    }
    out
}

/// Upper bound of the time the script needs: the plan of every go for either colour.
fn total_plan_ms(lines: &[String]) -> u64 {
    let mut t = 0u64;
    for l in lines {
        if l.split_whitespace().next() == Some("go") {
            let a = plan_for(l.trim(), Color::White).unwrap_or(0);
            let b = plan_for(l.trim(), Color::Black).unwrap_or(0);
            t += a.max(b).min(20_000) as u64;
        }
    }
    t
}

/// Run one pipelined session after the handshake. `lines` must not contain `uci`.
pub fn run_pipelined(bin: &Path, opts: &SpawnOpts, lines: &[String], end: End, chunking: Chunking, seed: u64) -> Result<PipeObs, String> {
    let mut eng = Engine::spawn(bin, opts)?;
    eng.send("uci");
    if eng.wait_for(|l| l == "uciok", WATCHDOG).is_none() {
        return Err(format!("no uciok; transcript {:?}", eng.transcript_text(6)));
    }
    let mut all: Vec<String> = lines.to_vec();
    if end == End::Quit {
        all.push("quit".into());
    }
    let expected = expected_tokens(&all);
    let mut bytes = Vec::new();
    for l in &all {
        if let Some(hex) = l.strip_prefix("RAWHEX:") {
            bytes.extend((0..hex.len() / 2).filter_map(|i| u8::from_str_radix(&hex[2 * i..2 * i + 2], 16).ok()));
        } else {
            bytes.extend_from_slice(l.as_bytes());
        }
        bytes.push(b'\n');
        eng.note_sent(l);
    }
    let pieces: Vec<Vec<u8>> = match chunking {
        Chunking::OneWrite => vec![bytes],
        Chunking::PerLine => bytes.split_inclusive(|b| *b == b'\n').map(|s| s.to_vec()).collect(),
        Chunking::Pieces(n) => {
            let mut rng = Rng::stream(seed, 0x9199);
            let mut out = Vec::new();
            let mut i = 0;
            while i < bytes.len() {
                let k = (1 + rng.below(n as u64) as usize).min(bytes.len() - i);
                out.push(bytes[i..i + k].to_vec());
                i += k;
            }
            out
        }
    };
    // pausing between pieces is affordable for scripts of ordinary size only
    let pause = matches!(chunking, Chunking::Pieces(_)) && pieces.len() < 20_000;
    let t_write = Instant::now();
    // a helper thread writes, so that a script larger than the pipe buffer cannot block the reader
    let writer = eng.write_async(pieces, end == End::Eof, if pause { Some(Duration::from_micros(150)) } else { None });
    if end == End::Eof {
        eng.note_sent("<EOF>");
    }
    let plan = total_plan_ms(&all);
    let budget = Duration::from_millis(plan) + WATCHDOG + Duration::from_millis(if pause { all.iter().map(|l| l.len() as u64).sum::<u64>() / 4 } else { all.iter().map(|l| l.len() as u64).sum::<u64>() / 200 });
    let deadline = t_write + budget;
    let count = |eng: &Engine| eng.transcript.iter().filter(|e| e.dir == Dir::Out && (e.line.starts_with("bestmove") || e.line == "readyok")).count();
    let mut t_last = Instant::now();
    loop {
        eng.drain(Duration::from_millis(2));
        // complete = every expected answer has arrived AND the whole script has been handed to
        // the pipe (lines after the last go/isready, e.g. the closing quit, are still input)
        if count(&eng) >= expected.len() && eng.written.load(std::sync::atomic::Ordering::Relaxed) {
            t_last = Instant::now();
            break;
        }
        if eng.exited().is_some() {
            eng.drain(Duration::from_millis(30));
            break;
        }
        if Instant::now() >= deadline {
            break;
        }
    }
    let complete = count(&eng) >= expected.len();
    let mut exit_ms = None;
    let mut cpu_burn = None;
    if end != End::Open && complete {
        // the process must go away; watch it the way C17 does (CPU time vs wall time)
        if eng.wait_exit(Duration::from_millis(150)).is_some() {
            exit_ms = Some(t_last.elapsed().as_millis() as u64);
        } else {
            let c0 = eng.cpu_seconds();
            let t0 = Instant::now();
            let gone = eng.wait_exit(Duration::from_millis(300)).is_some();
            let wall = t0.elapsed().as_secs_f64();
            let c1 = eng.cpu_seconds();
            if let (Some(a), Some(b)) = (c0, c1) {
                cpu_burn = Some((b - a, wall));
            }
            if gone || eng.wait_exit(Duration::from_millis(1600)).is_some() {
                exit_ms = Some(t_last.elapsed().as_millis() as u64);
            }
        }
    } else {
        // give a late extra line (a second bestmove) the chance to show
        eng.drain(Duration::from_millis(20));
    }
    let exited = eng.exited();
    let alive_threads = if exited.is_some() { 0 } else { eng.thread_count() };
    let tokens = eng
        .transcript
        .iter()
        .filter(|e| e.dir == Dir::Out)
        .filter_map(|e| {
            if e.line.starts_with("bestmove") {
                Some(('B', crate::sess::bestmove_text(&e.line)))
            } else if e.line == "readyok" {
                Some(('R', String::new()))
            } else {
                None
            }
        })
        .collect();
    let obs = PipeObs { tokens, expected, exited, exit_ms, alive_threads, cpu_burn, stderr: eng.stderr_text(), transcript: eng.transcript_text(60), complete, wait_budget_ms: budget.as_millis() as u64 };
    eng.kill();
    let _ = writer.join();
    Ok(obs)
}

pub struct Judged {
    pub gos: usize,
    pub terminal_gos: usize,
    /// (signature, text)
    pub problems: Vec<(String, String)>,
    pub inconclusive: Option<String>,
    pub answers: Vec<String>,
}

/// Offline checker for the answers of a pipelined session (C03's clauses, null move on terminal
/// roots as in C08). `lines` are clean commands.
pub fn judge(lines: &[String], obs: &PipeObs) -> Judged {
    let mut j = Judged { gos: 0, terminal_gos: 0, problems: vec![], inconclusive: None, answers: vec![] };
    // 1. order and number of the answers
    let seen: String = obs.tokens.iter().map(|t| t.0).collect();
    let want: String = obs.expected.iter().collect();
    if seen != want {
        if seen.len() < want.len() && want.starts_with(&seen) {
            // answers missing at the end
            if obs.exited.is_some() {
                j.problems.push(("died".into(), format!("the process ended (status {:?}) after {} of {} answers; stderr: {}", obs.exited, seen.len(), want.len(), truncate(&obs.stderr, 300))));
            } else if obs.alive_threads <= 1 {
                j.problems.push(("stuck".into(), format!("{} of {} answers arrived within {} ms, the process is alive and no search is running", seen.len(), want.len(), obs.wait_budget_ms)));
            } else {
                j.inconclusive = Some(format!("watchdog: {} of {} answers after {} ms, search thread alive", seen.len(), want.len(), obs.wait_budget_ms));
            }
        } else {
            let at = seen.chars().zip(want.chars()).position(|(a, b)| a != b).unwrap_or(seen.len().min(want.len()));
            j.problems.push(("order".into(), format!("answers do not follow the script: expected the sequence {} (B = bestmove per go, R = readyok per isready), observed {} (first difference at answer #{})", truncate(&want, 120), truncate(&seen, 120), at + 1)));
        }
    }
    // 2. legality of each bestmove in the oracle-tracked position
    let mut cur: Option<Pos> = None;
    let mut bi = obs.tokens.iter().filter(|t| t.0 == 'B').map(|t| t.1.clone());
    for l in lines {
        let first = l.split_whitespace().next().unwrap_or("");
        if first == "quit" {
            break;
        }
        if first == "position" {
            cur = super::replay::history_from_command(l).map(|h| h.end);
        } else if first == "go" {
            let text = match bi.next() {
                Some(t) => t,
                None => break,
            };
            j.gos += 1;
            j.answers.push(text.clone());
            let p = match &cur {
                Some(p) => p.clone(),
                None => continue,
            };
            let legal = legal_moves(&p);
            if legal.is_empty() {
                j.terminal_gos += 1;
                if text != "0000" && text != "(none)" {
                    j.problems.push((format!("terminal|{}", p.to_fen()), format!("'{}' on the terminal position {} was answered '{}'", l, p.to_fen(), text)));
                }
                continue;
            }
            if !super::c03::wellformed_move(&text) {
                j.problems.push((format!("malformed|{}|{}", p.to_fen(), text), format!("bestmove '{}' is not long algebraic notation ('{}' on {})", text, l, p.to_fen())));
                cur = None;
                continue;
            }
            match parse_mv(&text) {
                Some(m) if legal.contains(&m) => cur = Some(apply(&p, m)),
                _ => {
                    j.problems.push((format!("illegal|{}|{}", p.to_fen(), text), format!("bestmove '{}' is not a legal move of {} ('{}', go #{} of the script)", text, p.to_fen(), l, j.gos)));
                    cur = None;
                }
            }
        }
    }
    j
}

/// A script of positions and go chains (plans <= max_plan ms for either colour), isready probes.
pub fn make_script(rng: &mut Rng, roots: &[History], steps: usize, max_chain: usize, max_plan: u128) -> Vec<String> {
    let mut lines = Vec::new();
    for _ in 0..steps {
        let h = &roots[rng.below(roots.len() as u64) as usize];
        lines.push(h.command());
        let chain = 1 + rng.below(max_chain as u64) as usize;
        for _ in 0..chain {
            let mut line = "go".to_string();
            if rng.chance(2, 3) {
                for _ in 0..6 {
                    let col = if rng.chance(1, 2) { Color::White } else { Color::Black };
                    let a = go_args(rng, col, max_plan);
                    let cand = if a.is_empty() { "go".to_string() } else { format!("go {}", a) };
                    let pw = plan_for(&cand, Color::White).unwrap_or(u128::MAX);
                    let pb = plan_for(&cand, Color::Black).unwrap_or(u128::MAX);
                    if pw <= max_plan && pb <= max_plan {
                        line = cand;
                        break;
                    }
                }
            }
            let stop = crate::sess::wants_stop(&line);
            lines.push(line);
            if stop {
                lines.push("stop".into());
            }
            if rng.chance(1, 3) {
                lines.push("isready".into());
            }
        }
        if rng.chance(1, 4) {
            lines.push("ucinewgame".into());
        }
    }
    lines
}

pub fn case_json(prop: &str, lines: &[String], end: End, chunking: Chunking, obs: Option<&PipeObs>) -> Value {
    json!({"kind": "pipelined", "property": prop, "script": lines, "end": format!("{:?}", end),
        "chunking": match chunking { Chunking::OneWrite => "one".to_string(), Chunking::PerLine => "line".to_string(), Chunking::Pieces(n) => format!("pieces{}", n) },
        "transcript_tail": obs.map(|o| o.transcript.clone())})
}

/// Judge one pipelined session for C03 and record the observations.
pub fn observe_c03(bin: &Path, lines: &[String], end: End, chunking: Chunking, seed: u64, acc: &mut Acc) -> Option<Judged> {
    let obs = match run_pipelined(bin, &SpawnOpts::default(), lines, end, chunking, seed) {
        Ok(o) => o,
        Err(e) => {
            acc.inconclusive.push(format!("pipelined session failed to start: {}", e));
            return None;
        }
    };
    let j = judge(lines, &obs);
    acc.evaluations += j.gos as u64;
    acc.count("pipelined_go_commands", j.gos as u64);
    acc.count("pipelined_sessions", 1);
    if let Some(i) = &j.inconclusive {
        acc.inconclusive.push(i.clone());
    }
    for (sig, what) in &j.problems {
        acc.violation(format!("C03|pipelined|{}", sig), format!("pipelined session ({:?}, {:?}): {}", chunking, end, what), case_json("C03", lines, end, chunking, Some(&obs)));
    }
    if obs.stderr.contains("panicked") {
        acc.count("pipelined_sessions_with_panic_on_stderr_handed_to_C07", 1);
    }
    Some(j)
}

/// Replay of a recorded pipelined case: returns the number of problems seen.
pub fn replay(prop: &str, case: &Value) -> Result<usize, String> {
    let lines: Vec<String> = case.get("script").and_then(|x| x.as_array()).map(|a| a.iter().filter_map(|x| x.as_str().map(|s| s.to_string())).collect()).unwrap_or_default();
    if lines.is_empty() {
        return Err("no script recorded".into());
    }
    let end = match case.get("end").and_then(|x| x.as_str()).unwrap_or("Open") {
        "Quit" => End::Quit,
        "Eof" => End::Eof,
        _ => End::Open,
    };
    let ch = case.get("chunking").and_then(|x| x.as_str()).unwrap_or("one");
    let chunking = if ch == "one" {
        Chunking::OneWrite
    } else if ch == "line" {
        Chunking::PerLine
    } else {
        Chunking::Pieces(ch.trim_start_matches("pieces").parse().unwrap_or(7))
    };
    let bin = crate::bb::build_plain()?;
    let obs = run_pipelined(&bin, &SpawnOpts::default(), &lines, end, chunking, 1)?;
    for l in &obs.transcript {
        println!("    {}", l);
    }
    let j = judge(&lines, &obs);
    let mut bad = 0;
    for (_, what) in &j.problems {
        println!("  violation: {}", what);
        bad += 1;
    }
    if prop == "C17" {
        for w in lifecycle_problems(&obs, end) {
            println!("  violation: {}", w.1);
            bad += 1;
        }
    }
    if let Some(i) = j.inconclusive {
        println!("  inconclusive: {}", i);
    }
    Ok(bad)
}

/// C17's clauses on a pipelined session that ends with quit / end of input: the process goes
/// away promptly and does not spin meanwhile; nothing panics.
pub fn lifecycle_problems(obs: &PipeObs, end: End) -> Vec<(String, String)> {
    let mut out = Vec::new();
    if obs.stderr.contains("panicked") {
        out.push(("panic".into(), format!("'panicked' on stderr: {}", truncate(&obs.stderr, 300))));
    }
    if end == End::Open || !obs.complete {
        return out;
    }
    if obs.exit_ms.is_none() {
        let what = if end == End::Quit { "quit" } else { "end of input" };
        if let Some((cpu, wall)) = obs.cpu_burn {
            if cpu > 0.6 * wall {
                out.push((format!("spin-{:?}", end), format!("after the last answer and {} the process stays alive and burns CPU ({:.0} ms CPU in {:.0} ms wall, {} threads)", what, cpu * 1000.0, wall * 1000.0, obs.alive_threads)));
                return out;
            }
        }
        out.push((format!("alive-{:?}", end), format!("the process is still alive 2 s after the last answer and {} ({} threads)", what, obs.alive_threads)));
    }
    out
}
