//! Reference-model monitors for the rules layer: C01 (move sets), C02 (successors), C04 (text
//! applier), C05 (keys), C06 (check detection), C13 (capture-only chains). All observe the real
//! `generate_moves` / `is_check` / `make_move` / `from_fen` on positions supplied by the oracle.

use crate::board::BoardState;
use crate::ev::{Acc, Run, Tier};
use crate::glue::*;
use crate::move_generation::{generate_moves, is_check, MoveGenerationMode};
use crate::oracle::*;
use crate::par;
use crate::rng::{hash64, Rng};
use crate::workload::{self, Policy};
use crate::zobrist::ZobristHasher;
use serde_json::{json, Value};
use std::collections::HashMap;

#[derive(Clone, Copy, PartialEq, Eq, Debug)]
pub enum Prop {
    C01,
    C02,
    C04,
    C05,
    C06,
    C13,
}

impl Prop {
    pub fn id(self) -> &'static str {
        match self {
            Prop::C01 => "C01",
            Prop::C02 => "C02",
            Prop::C04 => "C04",
            Prop::C05 => "C05",
            Prop::C06 => "C06",
            Prop::C13 => "C13",
        }
    }
    pub fn parse(s: &str) -> Option<Prop> {
        Some(match s {
            "C01" => Prop::C01,
            "C02" => Prop::C02,
            "C04" => Prop::C04,
            "C05" => Prop::C05,
            "C06" => Prop::C06,
            "C13" => Prop::C13,
            _ => return None,
        })
    }
}

/// How the engine-side board under test was obtained (for replay).
#[derive(Clone)]
pub struct Origin {
    pub start_fen: String,
    pub moves: Vec<Mv>,
    /// "fen" fresh from_fen of the oracle position, "gen" chain of generator successors,
    /// "text" make_move chain, "cap" chain of capture-only successors appended after `moves`
    pub carrier: &'static str,
    pub cap_moves: Vec<Mv>,
}

impl Origin {
    pub fn case(&self, prop: Prop) -> Value {
        json!({"kind": "walk", "property": prop.id(), "start_fen": self.start_fen,
               "moves": self.moves.iter().map(|m| m.to_string()).collect::<Vec<_>>(),
               "carrier": self.carrier,
               "capture_moves": self.cap_moves.iter().map(|m| m.to_string()).collect::<Vec<_>>()})
    }
    fn path(&self) -> String {
        let mut s = self.moves.iter().map(|m| m.to_string()).collect::<Vec<_>>().join(" ");
        if !self.cap_moves.is_empty() {
            s.push_str(" | cap: ");
            s.push_str(&self.cap_moves.iter().map(|m| m.to_string()).collect::<Vec<_>>().join(" "));
        }
        s
    }
}

fn mvs_str(v: &[Mv]) -> String {
    v.iter().map(|m| m.to_string()).collect::<Vec<_>>().join(",")
}

/// Result of matching an engine move list against the oracle's.
pub struct Matched {
    /// successors whose descriptor is a legal move of the position
    pub ok: Vec<(Mv, BoardState)>,
}

/// Run the engine generator on `eb` (claimed to hold `p`) in `mode`, compare with the oracle.
/// Reports for `prop` only. Returns matched successors, or None if the engine panicked.
pub fn check_generation(
    p: &Pos,
    eb: &BoardState,
    mode: MoveGenerationMode,
    h: &ZobristHasher,
    prop: Prop,
    origin: &Origin,
    acc: &mut Acc,
) -> Option<Matched> {
    let fen = p.to_fen();
    let succ = match par::catch(|| generate_moves(eb, mode, h)) {
        Ok(s) => s,
        Err(msg) => {
            if matches!(prop, Prop::C01 | Prop::C02 | Prop::C13) {
                acc.violation(
                    format!("{}|panic|{}|{}", prop.id(), fen, origin.carrier),
                    format!("generate_moves panicked on {} ({} carrier, path [{}]): {}", fen, origin.carrier, origin.path(), msg),
                    origin.case(prop),
                );
            }
            return None;
        }
    };
    let all_legal = legal_moves(p);
    let want: Vec<Mv> = match mode {
        MoveGenerationMode::AllMoves => all_legal.clone(),
        MoveGenerationMode::CapturesOnly => all_legal.iter().copied().filter(|m| is_capture(p, *m)).collect(),
    };
    let mut got: Vec<Mv> = Vec::with_capacity(succ.len());
    let mut ok = Vec::with_capacity(succ.len());
    let set_prop = if mode == MoveGenerationMode::AllMoves { Prop::C01 } else { Prop::C13 };
    let succ_prop = if mode == MoveGenerationMode::AllMoves { Prop::C02 } else { Prop::C13 };
    for s in succ.into_iter() {
        acc.evaluations += 1;
        let m = match mv_of(&s) {
            Ok(m) => m,
            Err(e) => {
                if prop == succ_prop || prop == set_prop {
                    acc.violation(
                        format!("{}|descriptor|{}", prop.id(), fen),
                        format!("successor of {} carries a malformed descriptor: {}", fen, e),
                        origin.case(prop),
                    );
                }
                continue;
            }
        };
        got.push(m);
        // descriptor sanity (C02): promotion letter iff the move promotes
        let mut m_eff = m;
        if !all_legal.contains(&m) {
            let bare = Mv { promo: None, ..m };
            if m.promo.is_some() && all_legal.contains(&bare) {
                if prop == succ_prop {
                    acc.violation(
                        format!("{}|promo-letter|{}|{}", prop.id(), fen, m),
                        format!("{}: successor descriptor {} carries a promotion piece but {} does not promote (path [{}], {} carrier)", fen, m, bare, origin.path(), origin.carrier),
                        origin.case(prop),
                    );
                }
                m_eff = bare;
            } else if m.promo.is_none() && all_legal.contains(&Mv { promo: Some(Kind::Queen), ..m }) {
                if prop == succ_prop {
                    acc.violation(
                        format!("{}|promo-missing|{}|{}", prop.id(), fen, m),
                        format!("{}: successor descriptor {} lacks the promotion piece although the move promotes (path [{}], {} carrier, mode {})", fen, m, origin.path(), origin.carrier, if mode == MoveGenerationMode::AllMoves { "all" } else { "captures" }),
                        origin.case(prop),
                    );
                }
                // the successor cannot be compared with any single legal move
                continue;
            } else {
                continue; // illegal move: reported by the set comparison below
            }
        }
        let wantp = apply(p, m_eff);
        let wf = fields_of_pos(&wantp);
        let gf = fields_of(&s);
        if prop == succ_prop && gf != wf {
            acc.violation(
                format!("{}|successor|{}|{}", prop.id(), fen, m),
                format!("{} after {}: successor differs from the rules: {} (path [{}], {} carrier, mode {})", fen, m, gf.diff(&wf), origin.path(), origin.carrier, if mode == MoveGenerationMode::AllMoves { "all" } else { "captures" }),
                origin.case(prop),
            );
        }
        if prop == Prop::C05 {
            let scratch = zobrist_from_scratch(&gf, h);
            if s.zobrist_key != scratch {
                acc.violation(
                    format!("C05|gen-key|{}|{}", fen, m),
                    format!("{} after {}: generator successor key {:016x} != from-scratch key {:016x} of the position it holds ({} carrier, mode {}, path [{}])", fen, m, s.zobrist_key, scratch, origin.carrier, if mode == MoveGenerationMode::AllMoves { "all" } else { "captures" }, origin.path()),
                    origin.case(prop),
                );
            }
        }
        if prop == Prop::C06 {
            check_is_check(&wantp, &s, "generator successor", origin, acc);
        }
        if m_eff == m {
            ok.push((m, s));
        }
    }
    if prop == set_prop {
        let mut g = got.clone();
        g.sort();
        let mut w = want.clone();
        w.sort();
        if g != w {
            let extra: Vec<Mv> = g.iter().copied().filter(|m| !w.contains(m)).collect();
            let missing: Vec<Mv> = w.iter().copied().filter(|m| !g.contains(m)).collect();
            let mut dup: Vec<Mv> = Vec::new();
            for i in 1..g.len() {
                if g[i] == g[i - 1] && !dup.contains(&g[i]) {
                    dup.push(g[i]);
                }
            }
            acc.violation(
                format!("{}|set|{}|+{}|-{}|d{}", prop.id(), fen, mvs_str(&extra), mvs_str(&missing), mvs_str(&dup)),
                format!(
                    "{}: {} generation differs from the legal {}: extra [{}] missing [{}] duplicated [{}] ({} carrier, path [{}])",
                    fen,
                    if mode == MoveGenerationMode::AllMoves { "full" } else { "capture-only" },
                    if mode == MoveGenerationMode::AllMoves { "moves" } else { "captures" },
                    mvs_str(&extra),
                    mvs_str(&missing),
                    mvs_str(&dup),
                    origin.carrier,
                    origin.path()
                ),
                origin.case(prop),
            );
        }
    }
    Some(Matched { ok })
}

/// C06: the engine's check answer for both colours against the oracle's attack test.
pub fn check_is_check(p: &Pos, eb: &BoardState, what: &str, origin: &Origin, acc: &mut Acc) {
    for c in [Color::White, Color::Black] {
        acc.evaluations += 1;
        let want = in_check(p, c);
        match par::catch(|| is_check(eb, engine_color(c))) {
            Ok(got) => {
                if got != want {
                    acc.violation(
                        format!("C06|mismatch|{}|{:?}", p.placement_fen(), c),
                        format!("{} ({}): engine says {:?} in check = {}, rules say {}", p.to_fen(), what, c, got, want),
                        json!({"kind": "placement", "property": "C06", "fen": p.to_fen(), "via": origin.case(Prop::C06)}),
                    );
                }
            }
            Err(msg) => acc.violation(
                format!("C06|panic|{}", p.placement_fen()),
                format!("is_check panicked on {}: {}", p.to_fen(), msg),
                json!({"kind": "placement", "property": "C06", "fen": p.to_fen()}),
            ),
        }
    }
}

fn note_position(p: &Pos, legal: &[Mv], acc: &mut Acc) {
    let feats = workload::position_features(p, legal);
    if !feats.is_empty() {
        if acc.distinct.insert(hash64(&p.to_fen())) {
            for f in feats {
                acc.feature(f);
            }
        }
    }
}

/// State carried along a walk: the same game held four ways.
pub struct Carriers {
    pub p: Pos,
    pub gen: BoardState,
    pub txt: BoardState,
    pub start_fen: String,
    pub moves: Vec<Mv>,
}

/// Text of a successor's move as the engine itself prints it after `bestmove `.
pub fn engine_move_text(s: &BoardState) -> Result<String, String> {
    par::catch(|| {
        crate::verif::arm(None, 0);
        crate::uci::verif_send_best_move_to_gui(s);
        let rep = crate::verif::disarm();
        let mut out = String::new();
        for e in rep.events {
            if let crate::verif::Ev::Line(l) = e {
                out = l;
            }
        }
        out
    })
    .map(|l| l.strip_prefix("bestmove ").unwrap_or(&l).to_string())
}

/// Follow one game from `start`, choosing moves with `choose`; run the per-ply checks of `prop`.
pub fn walk(
    start: &Pos,
    max_plies: usize,
    choose: &mut dyn FnMut(&Pos, &[Mv], usize) -> Option<Mv>,
    h: &ZobristHasher,
    prop: Prop,
    rng: &mut Rng,
    acc: &mut Acc,
) {
    let start_fen = start.to_fen();
    let e0 = match par::catch(|| engine_from_pos(start)) {
        Ok(Ok(b)) => b,
        Ok(Err(e)) | Err(e) => {
            acc.inconclusive.push(format!("walk start rejected by from_fen: {}", e));
            return;
        }
    };
    let mut c = Carriers { p: start.clone(), gen: e0.clone(), txt: e0, start_fen: start_fen.clone(), moves: vec![] };
    for ply in 0..max_plies {
        let legal = legal_moves(&c.p);
        note_position(&c.p, &legal, acc);
        let o_gen = Origin { start_fen: start_fen.clone(), moves: c.moves.clone(), carrier: "gen", cap_moves: vec![] };
        let o_fen = Origin { carrier: "fen", ..o_gen.clone() };
        let o_txt = Origin { carrier: "text", ..o_gen.clone() };
        // a fresh load of the same position
        let fresh = match par::catch(|| engine_from_pos(&c.p)) {
            Ok(Ok(b)) => b,
            Ok(Err(e)) | Err(e) => {
                acc.inconclusive.push(format!("from_fen rejected an oracle position: {}", e));
                return;
            }
        };
        // property specific observations at this node ---------------------------------------
        let matched = check_generation(&c.p, &c.gen, MoveGenerationMode::AllMoves, h, prop, &o_gen, acc);
        match prop {
            Prop::C01 | Prop::C02 => {
                check_generation(&c.p, &fresh, MoveGenerationMode::AllMoves, h, prop, &o_fen, acc);
                if prop == Prop::C01 {
                    // the position as the `position ... moves ...` replay holds it: a position
                    // reached by a legal move sequence through the engine's own interface
                    check_generation(&c.p, &c.txt, MoveGenerationMode::AllMoves, h, prop, &o_txt, acc);
                }
            }
            Prop::C05 => {
                for (b, what, o) in [(&c.gen, "generator chain", &o_gen), (&c.txt, "text applier", &o_txt), (&fresh, "FEN loader", &o_fen)] {
                    acc.evaluations += 1;
                    let f = fields_of(b);
                    let scratch = zobrist_from_scratch(&f, h);
                    if b.zobrist_key != scratch {
                        acc.violation(
                            format!("C05|{}|{}|{}", what, c.p.to_fen(), c.moves.last().map(|m| m.to_string()).unwrap_or_default()),
                            format!("{} reached by [{}] from {}: key held by the {} board {:016x} != from-scratch key {:016x}", c.p.to_fen(), o_gen.path(), start_fen, what, b.zobrist_key, scratch),
                            o.case(prop),
                        );
                    }
                }
                check_generation(&c.p, &c.gen, MoveGenerationMode::CapturesOnly, h, prop, &o_gen, acc);
            }
            Prop::C06 => {
                check_is_check(&c.p, &c.gen, "generator chain", &o_gen, acc);
                check_is_check(&c.p, &c.txt, "text applier", &o_txt, acc);
            }
            Prop::C13 => {
                capture_chains(&c.p, &c.gen, h, &o_gen, rng, acc, 0);
                capture_chains(&c.p, &fresh, h, &o_fen, rng, acc, 0);
            }
            Prop::C04 => {
                // every generated move, printed by the engine and replayed as text, reproduces its successor
                if let Some(mt) = &matched {
                    for (m, s) in &mt.ok {
                        acc.evaluations += 1;
                        let text = match engine_move_text(s) {
                            Ok(t) => t,
                            Err(e) => {
                                acc.violation(format!("C04|print-panic|{}|{}", c.p.to_fen(), m), format!("printing move {} of {} panicked: {}", m, c.p.to_fen(), e), o_gen.case(prop));
                                continue;
                            }
                        };
                        let mut t = c.txt.clone();
                        match par::catch(|| crate::uci::verif_make_move(&mut t, &text, h)) {
                            Ok(()) => {
                                let (ft, fs) = (fields_of(&t), fields_of(s));
                                if ft != fs || t.zobrist_key != s.zobrist_key {
                                    acc.violation(
                                        format!("C04|reprint|{}|{}", c.p.to_fen(), text),
                                        format!("{}: generated move printed as '{}' and replayed as text does not reproduce its own successor: {}{} (path [{}])", c.p.to_fen(), text, ft.diff(&fs), if t.zobrist_key != s.zobrist_key { format!("; key {:016x} vs {:016x}", t.zobrist_key, s.zobrist_key) } else { String::new() }, o_gen.path()),
                                        o_gen.case(prop),
                                    );
                                }
                            }
                            Err(e) => acc.violation(format!("C04|reprint-panic|{}|{}", c.p.to_fen(), text), format!("{}: replaying the engine's own move text '{}' panicked: {}", c.p.to_fen(), text, e), o_gen.case(prop)),
                        }
                    }
                }
            }
        }
        if legal.is_empty() {
            break;
        }
        let m = match choose(&c.p, &legal, ply) {
            Some(m) => m,
            None => break,
        };
        let np = apply(&c.p, m);
        // advance the three carriers ----------------------------------------------------------
        let next_gen = matched.as_ref().and_then(|mt| mt.ok.iter().find(|(mm, _)| *mm == m).map(|(_, s)| s.clone()));
        let mut txt = c.txt.clone();
        let txt_res = par::catch(|| crate::uci::verif_make_move(&mut txt, &m.to_string(), h));
        c.moves.push(m);
        let o_txt2 = Origin { start_fen: start_fen.clone(), moves: c.moves.clone(), carrier: "text", cap_moves: vec![] };
        let want = fields_of_pos(&np);
        let mut resync = false;
        if prop == Prop::C04 {
            acc.evaluations += 1;
            match &txt_res {
                Ok(()) => {
                    let got = fields_of(&txt);
                    if got != want {
                        acc.violation(
                            format!("C04|text|{}|{}", c.p.to_fen(), m),
                            format!("{} + '{}' via the text applier: {} (path [{}] from {})", c.p.to_fen(), m, got.diff(&want), o_txt2.path(), start_fen),
                            o_txt2.case(prop),
                        );
                        resync = true;
                    }
                    let scratch = zobrist_from_scratch(&want, h);
                    if txt.zobrist_key != scratch {
                        acc.violation(
                            format!("C04|text-key|{}|{}", c.p.to_fen(), m),
                            format!("{} + '{}' via the text applier: hash {:016x} != hash of the position {:016x} (path [{}] from {})", c.p.to_fen(), m, txt.zobrist_key, scratch, o_txt2.path(), start_fen),
                            o_txt2.case(prop),
                        );
                        resync = true;
                    }
                    if let Some(g) = &next_gen {
                        let gf = fields_of(g);
                        if gf != got || g.zobrist_key != txt.zobrist_key {
                            acc.violation(
                                format!("C04|text-vs-gen|{}|{}", c.p.to_fen(), m),
                                format!("{} + '{}': text applier and the engine's own successor disagree: {}{} (path [{}] from {})", c.p.to_fen(), m, got.diff(&gf), if g.zobrist_key != txt.zobrist_key { format!("; key {:016x} vs {:016x}", txt.zobrist_key, g.zobrist_key) } else { String::new() }, o_txt2.path(), start_fen),
                                o_txt2.case(prop),
                            );
                            resync = true;
                        }
                    }
                }
                Err(e) => {
                    acc.violation(format!("C04|text-panic|{}|{}", c.p.to_fen(), m), format!("{} + '{}': text applier panicked: {}", c.p.to_fen(), m, e), o_txt2.case(prop));
                    resync = true;
                }
            }
        }
        let fresh_next = match par::catch(|| engine_from_pos(&np)) {
            Ok(Ok(b)) => b,
            _ => return,
        };
        if prop == Prop::C06 && txt_res.is_ok() {
            // the text applier's board as it stands right after the move (its cached king squares
            // are what the check test trusts), judged before any resynchronisation
            check_is_check(&np, &txt, "text applier, right after the move", &o_txt2, acc);
        }
        let want_key = zobrist_from_scratch(&want, h);
        if prop == Prop::C05 {
            if let Ok(()) = &txt_res {
                acc.evaluations += 1;
                let own = zobrist_from_scratch(&fields_of(&txt), h);
                if txt.zobrist_key != own {
                    acc.violation(
                        format!("C05|text applier|{}|{}", np.to_fen(), m),
                        format!("{} + '{}' via the text applier: key {:016x} != from-scratch key {:016x} of the board it holds (path [{}] from {})", c.p.to_fen(), m, txt.zobrist_key, own, o_txt2.path(), start_fen),
                        o_txt2.case(prop),
                    );
                }
            }
            // "every route to the same position yields the same key": the position the game has
            // reached, as replayed move by move, as generated, and as loaded from its FEN
            acc.evaluations += 1;
            let k_txt = txt_res.as_ref().ok().map(|_| txt.zobrist_key);
            let k_gen = next_gen.as_ref().map(|g| g.zobrist_key);
            let k_fen = fresh_next.zobrist_key;
            if k_txt.map(|k| k != k_fen).unwrap_or(false) || k_gen.map(|k| k != k_fen).unwrap_or(false) {
                acc.violation(
                    format!("C05|route|{}|{}", np.to_fen(), m),
                    format!("{} (reached from {} by [{}]): the three routes do not agree on its key - replayed move list {}, generated successor {}, loaded from FEN {:016x}", np.to_fen(), start_fen, o_txt2.path(),
                        k_txt.map(|k| format!("{:016x}", k)).unwrap_or_else(|| "-".into()), k_gen.map(|k| format!("{:016x}", k)).unwrap_or_else(|| "-".into()), k_fen),
                    o_txt2.case(prop),
                );
            }
        }
        // Follow the engine's own objects as long as they hold the right position and key;
        // otherwise (already reported by the property concerned) resynchronise from a fresh load
        // so that one defect does not cascade down the rest of the game.
        // C01 / C06 / C13 judge the engine's own chain of objects against the true game: as long
        // as the successor holds the right pieces and side to move it stays the carrier even if
        // its rights / ep target / key are off (C02 / C05 report that), so that the consequences
        // - e.g. a castling move offered two plies after a missed right revocation - are observed.
        let lenient = matches!(prop, Prop::C01 | Prop::C06 | Prop::C13);
        c.gen = match next_gen {
            Some(g) if fields_of(&g) == want && g.zobrist_key == want_key => g,
            Some(g) if lenient && { let f = fields_of(&g); f.sq == want.sq && f.stm == want.stm && f.ring_ok } => {
                acc.count("gen_carrier_followed_despite_state_mismatch", 1);
                g
            }
            _ => {
                acc.count("gen_carrier_resyncs", 1);
                fresh_next.clone()
            }
        };
        c.txt = if txt_res.is_ok() && !resync && fields_of(&txt) == want && txt.zobrist_key == want_key {
            txt
        } else if lenient && txt_res.is_ok() && { let f = fields_of(&txt); f.sq == want.sq && f.stm == want.stm && f.ring_ok } {
            acc.count("text_carrier_followed_despite_state_mismatch", 1);
            txt
        } else {
            acc.count("text_carrier_resyncs", 1);
            fresh_next
        };
        c.p = np;
    }
}

/// C13 (and C05 for capture mode): follow capture-only generations as quiescence does. Full
/// breadth for the first `FULL` levels, then one random branch down to depth 10.
const FULL: usize = 2;
pub fn capture_chains(p: &Pos, eb: &BoardState, h: &ZobristHasher, origin: &Origin, rng: &mut Rng, acc: &mut Acc, depth: usize) {
    if depth >= 10 {
        return;
    }
    let legal = legal_moves(p);
    if depth > 0 {
        note_position(p, &legal, acc);
    }
    let matched = match check_generation(p, eb, MoveGenerationMode::CapturesOnly, h, Prop::C13, origin, acc) {
        Some(m) => m,
        None => return,
    };
    if !matched.ok.is_empty() {
        acc.max("max_capture_chain", depth as u64 + 1);
        if depth == 0 {
            acc.feature("capture_available");
        }
    }
    let idxs: Vec<usize> = if depth < FULL {
        (0..matched.ok.len()).collect()
    } else if matched.ok.is_empty() {
        vec![]
    } else {
        vec![rng.below(matched.ok.len() as u64) as usize]
    };
    for i in idxs {
        let (m, s) = &matched.ok[i];
        let np = apply(p, *m);
        let mut o = origin.clone();
        o.cap_moves.push(*m);
        if is_ep_capture(p, *m) {
            acc.feature("ep_capture_in_chain");
        }
        if m.promo.is_some() {
            acc.feature("capture_promotion_in_chain");
        }
        // the engine continues from its own capture-only successor, the oracle from the real position
        capture_chains(&np, s, h, &o, rng, acc, depth + 1);
    }
}

/// Lock-step tree walk: expand the engine's own successor objects to `depth` plies and compare
/// every node with the oracle (a differential perft that looks at sets and fields, not counts).
/// Consequences of a wrong successor (e.g. a right that was not revoked) are met one or more
/// plies later because the engine-side carrier is the engine's own object.
pub fn tree_check(p: &Pos, eb: &BoardState, depth: usize, h: &ZobristHasher, prop: Prop, origin: &Origin, acc: &mut Acc) {
    let legal = legal_moves(p);
    note_position(p, &legal, acc);
    acc.count("tree_nodes", 1);
    if prop == Prop::C06 {
        check_is_check(p, eb, "generator chain", origin, acc);
    }
    let matched = match check_generation(p, eb, MoveGenerationMode::AllMoves, h, prop, origin, acc) {
        Some(m) => m,
        None => return,
    };
    if depth == 0 {
        return;
    }
    for (m, s) in matched.ok.iter() {
        let np = apply(p, *m);
        let f = fields_of(s);
        // only a successor that holds the right pieces can be compared further
        if f.sq != np.sq || f.stm != np.stm || !f.ring_ok {
            continue;
        }
        let mut o = origin.clone();
        o.moves.push(*m);
        o.carrier = "gen";
        tree_check(&np, s, depth - 1, h, prop, &o, acc);
    }
}

// ------------------------------------------------------------------------------------------------
// Drivers
// ------------------------------------------------------------------------------------------------

pub fn position_check_entry(p: &Pos, h: &ZobristHasher, prop: Prop, rng: &mut Rng, acc: &mut Acc) {
    let legal = legal_moves(p);
    note_position(p, &legal, acc);
    let o = Origin { start_fen: p.to_fen(), moves: vec![], carrier: "fen", cap_moves: vec![] };
    let eb = match par::catch(|| engine_from_pos(p)) {
        Ok(Ok(b)) => b,
        Ok(Err(e)) | Err(e) => {
            acc.inconclusive.push(format!("from_fen rejected an oracle position: {}", e));
            return;
        }
    };
    match prop {
        Prop::C13 => capture_chains(p, &eb, h, &o, rng, acc, 0),
        Prop::C06 => {
            check_is_check(p, &eb, "FEN loader", &o, acc);
            check_generation(p, &eb, MoveGenerationMode::AllMoves, h, prop, &o, acc);
        }
        Prop::C05 => {
            acc.evaluations += 1;
            let scratch = zobrist_from_scratch(&fields_of(&eb), h);
            if eb.zobrist_key != scratch {
                acc.violation(format!("C05|FEN loader|{}|", p.to_fen()), format!("{}: key of the loaded board {:016x} != from-scratch key {:016x}", p.to_fen(), eb.zobrist_key, scratch), o.case(prop));
            }
            check_generation(p, &eb, MoveGenerationMode::AllMoves, h, prop, &o, acc);
            check_generation(p, &eb, MoveGenerationMode::CapturesOnly, h, prop, &o, acc);
        }
        _ => {
            check_generation(p, &eb, MoveGenerationMode::AllMoves, h, prop, &o, acc);
        }
    }
}

pub fn rule_text(prop: Prop) -> String {
    let common = "positions come from (a) oracle-driven random games (W-walk: uniform/tactical/shuffle/race policies, up to 300 plies, from a 40-entry start library plus seeded opening walks) with the engine state carried as its own generator successors, as the text applier's board and as a fresh FEN load, (b) direct synthesis of legal positions (W-synth), (c) systematic families run completely (castling: 4 types x enemy king on 64 squares x <=1 extra enemy piece of 5 kinds on 64 squares) or sampled (en-passant pin geometry). A case is non-trivial iff its position has at least one of: castling right present, ep target present, promotion available, side to move in check, terminal; distinct = distinct canonical FEN";
    match prop {
        Prop::C01 => format!("evaluation = one generated successor compared against the oracle's legal move set; {}", common),
        Prop::C02 => format!("evaluation = one generated successor compared field by field (64 squares, side, rights, ep target, king squares, ring, descriptor) with oracle.apply; {}", common),
        Prop::C04 => format!("evaluation = one text-applied ply (fields + hash vs oracle, vs generator successor) or one generated move printed by the engine and replayed; {}", common),
        Prop::C05 => format!("evaluation = one key comparison (board key vs key recomputed from the board's own fields via the hasher's getters) for FEN loader, text applier, generator (both modes), agreement of the three routes on the key of every position a walk reaches, plus transposition pairs and single-component flips; {}", common),
        Prop::C06 => format!("evaluation = one is_check answer (one colour, one placement) compared with oracle.attacked; placements: complete family king x attacker x blocker-on-ray, all king pairs, random placements (legal or not), walk positions on generator/text boards; {}", common),
        Prop::C13 => format!("evaluation = one capture-only successor compared with the oracle (set membership + fields), along chains that follow the engine's own capture-only successors (full breadth 2 levels, then one random branch to depth 10); {}", common),
    }
}
