//! C11: mate announcements are true, a mate in one is played, being mated next move is avoided,
//! stalemate is never scored as mate. Reference = the oracle's full-width mate solver.

use super::rules_driver::truncate;
use super::search::{make_root, root_case, Root};
use super::searchlib::*;
use crate::ev::{Acc, Run, Tier};
use crate::glue::*;
use crate::oracle::*;
use crate::par;
use crate::rng::{hash64, Rng};
use crate::verif::Ev;
use crate::workload::{self, Policy};
use crate::zobrist::ZobristHasher;
use serde_json::json;

/// Random legal position with the given material (white pieces, black pieces besides kings).
pub fn material_position(rng: &mut Rng, white: &[Kind], black: &[Kind], stm: Color) -> Option<Pos> {
    let mut p = Pos::empty();
    let corner_bias = rng.chance(2, 3);
    let place = |p: &mut Pos, rng: &mut Rng, pc: (Color, Kind), near_edge: bool| -> bool {
        for _ in 0..20 {
            let s = if near_edge {
                let f = *rng.pick(&[0, 0, 1, 6, 7, 7, 2, 5]) as i32;
                let r = *rng.pick(&[0, 0, 1, 6, 7, 7, 2, 5]) as i32;
                sq_at(f, r).unwrap()
            } else {
                rng.below(64) as u8
            };
            if p.sq[s as usize].is_none() && !(pc.1 == Kind::Pawn && (rank_of(s) == 0 || rank_of(s) == 7)) {
                p.sq[s as usize] = Some(pc);
                return true;
            }
        }
        false
    };
    if !place(&mut p, rng, (Color::Black, Kind::King), corner_bias) {
        return None;
    }
    let wk_edge = corner_bias && rng.chance(1, 2);
    if !place(&mut p, rng, (Color::White, Kind::King), wk_edge) {
        return None;
    }
    for k in white {
        if !place(&mut p, rng, (Color::White, *k), false) {
            return None;
        }
    }
    for k in black {
        if !place(&mut p, rng, (Color::Black, *k), false) {
            return None;
        }
    }
    p.stm = stm;
    let p = if rng.chance(1, 2) { mirror(&p) } else { p };
    if is_legal_position(&p) {
        Some(p)
    } else {
        None
    }
}

/// Sparse material with the defending king in a corner, hemmed in by its own men (smothered and
/// corner mates: knight or bishop against knight, bishop, pawn or rook - endings in which a mate
/// exists although neither side could force one).
pub fn cornered_position(rng: &mut Rng) -> Option<Pos> {
    let mut p = Pos::empty();
    let (cf, cr) = *rng.pick(&[(0, 0), (0, 7), (7, 0), (7, 7)]);
    let corner = sq_at(cf, cr).unwrap();
    p.sq[corner as usize] = Some((Color::Black, Kind::King));
    let mut neigh: Vec<u8> = Vec::new();
    for df in -1..=1 {
        for dr in -1..=1 {
            if (df, dr) != (0, 0) {
                if let Some(s) = sq_at(cf + df, cr + dr) {
                    neigh.push(s);
                }
            }
        }
    }
    rng.shuffle(&mut neigh);
    let n_def = 1 + rng.below(2) as usize;
    for s in neigh.iter().take(n_def) {
        let k = *rng.pick(&[Kind::Knight, Kind::Bishop, Kind::Pawn, Kind::Rook, Kind::Knight, Kind::Bishop]);
        if k == Kind::Pawn && (rank_of(*s) == 0 || rank_of(*s) == 7) {
            continue;
        }
        p.sq[*s as usize] = Some((Color::Black, k));
    }
    for _ in 0..20 {
        let f = cf + rng.range(-3, 4) as i32;
        let r = cr + rng.range(-3, 4) as i32;
        if let Some(s) = sq_at(f, r) {
            if p.sq[s as usize].is_none() && ((f - cf).abs().max((r - cr).abs())) >= 2 {
                p.sq[s as usize] = Some((Color::White, Kind::King));
                break;
            }
        }
    }
    if !p.sq.iter().any(|x| *x == Some((Color::White, Kind::King))) {
        return None;
    }
    let n_att = 1 + rng.below(2) as usize;
    for _ in 0..n_att {
        let k = *rng.pick(&[Kind::Knight, Kind::Bishop, Kind::Knight, Kind::Bishop, Kind::Rook, Kind::Pawn]);
        for _ in 0..10 {
            let s = rng.below(64) as u8;
            if p.sq[s as usize].is_none() && !(k == Kind::Pawn && (rank_of(s) == 0 || rank_of(s) == 7)) {
                p.sq[s as usize] = Some((Color::White, k));
                break;
            }
        }
    }
    p.stm = if rng.chance(2, 3) { Color::White } else { Color::Black };
    let p = if rng.chance(1, 2) { mirror(&p) } else { p };
    if is_legal_position(&p) {
        Some(p)
    } else {
        None
    }
}

/// A mate in one that only an under-promotion gives (the queen promotion on the same squares does
/// not mate, typically because it stalemates or lets the king out): the four promotions of one
/// pawn share their squares, anything that identifies a move by its squares alone goes wrong here.
pub fn underpromotion_mate_position(rng: &mut Rng) -> Option<Pos> {
    // the classical shape, varied: king on h7 hemmed in by its own men on h6 and h8, white king f6,
    // pawn f7, one white piece guarding g8; f8=N is mate, f8=Q is not. Flipped and mirrored at random.
    let mut p = Pos::empty();
    let flip = rng.chance(1, 2);
    let at = |f: i32, r: i32| sq_at(if flip { 7 - f } else { f }, r).unwrap();
    p.sq[at(7, 6) as usize] = Some((Color::Black, Kind::King));
    p.sq[at(5, 6) as usize] = Some((Color::White, Kind::Pawn));
    p.sq[at(5, 5) as usize] = Some((Color::White, Kind::King));
    p.sq[at(7, 5) as usize] = Some((Color::Black, *rng.pick(&[Kind::Pawn, Kind::Pawn, Kind::Knight, Kind::Bishop])));
    p.sq[at(7, 7) as usize] = Some((Color::Black, *rng.pick(&[Kind::Knight, Kind::Bishop, Kind::Rook, Kind::Knight])));
    // guard of g8
    match rng.below(3) {
        0 => {
            let (f, r) = *rng.pick(&[(2, 3), (3, 4), (1, 2), (0, 1)]);
            p.sq[at(f, r) as usize] = Some((Color::White, Kind::Bishop));
        }
        1 => {
            let r = rng.below(5) as i32;
            p.sq[at(6, r) as usize] = Some((Color::White, *rng.pick(&[Kind::Rook, Kind::Queen])));
        }
        _ => {
            p.sq[at(4, 6) as usize] = Some((Color::White, Kind::Knight));
        }
    }
    // bystanders far from the corner
    for _ in 0..rng.below(4) {
        let s = sq_at(rng.below(5) as i32, 1 + rng.below(4) as i32)?;
        let s = if flip { sq_at(7 - file_of(s), rank_of(s))? } else { s };
        if p.sq[s as usize].is_none() {
            p.sq[s as usize] = Some((*rng.pick(&[Color::White, Color::Black]), Kind::Pawn));
        }
    }
    p.stm = Color::White;
    if !is_legal_position(&p) {
        return None;
    }
    let legal = legal_moves(&p);
    let mates: Vec<&Mv> = legal.iter().filter(|m| is_checkmate(&apply(&p, **m))).collect();
    if mates.is_empty() || mates.iter().any(|m| m.promo.is_none() || m.promo == Some(Kind::Queen)) {
        return None;
    }
    Some(if rng.chance(1, 2) { mirror(&p) } else { p })
}

/// Stamma's mate and its relatives: the defending king in the corner behind its own rook pawn,
/// the attacker has king and knight, both sides have a spare pawn or two for tempo moves. Mates
/// exist, but only with the right side to move at the right moment (zugzwang) - the family in
/// which a search that passes the move (null-move pruning) goes wrong if it trusts the result too
/// much. Searched deeper than the other roots (the trees are tiny).
pub fn stamma_position(rng: &mut Rng) -> Option<Pos> {
    let mut p = Pos::empty();
    let flip = rng.chance(1, 2);
    let at = |f: i32, r: i32| sq_at(if flip { 7 - f } else { f }, r).unwrap();
    p.sq[at(0, 0) as usize] = Some((Color::Black, Kind::King));
    let pr = *rng.pick(&[2, 1, 2, 3]);
    p.sq[at(0, pr) as usize] = Some((Color::Black, Kind::Pawn));
    let (kf, kr) = *rng.pick(&[(2, 1), (2, 0), (3, 2), (3, 1), (2, 2), (3, 0), (1, 2)]);
    if p.sq[at(kf, kr) as usize].is_some() {
        return None;
    }
    p.sq[at(kf, kr) as usize] = Some((Color::White, Kind::King));
    for _ in 0..10 {
        let s = at(rng.below(6) as i32, rng.below(5) as i32);
        if p.sq[s as usize].is_none() {
            p.sq[s as usize] = Some((Color::White, Kind::Knight));
            break;
        }
    }
    // tempo pawns on the far side
    for _ in 0..rng.below(3) {
        let f = 3 + rng.below(5) as i32;
        let br = 4 + rng.below(3) as i32;
        let s = at(f, br);
        if p.sq[s as usize].is_none() {
            p.sq[s as usize] = Some((Color::Black, Kind::Pawn));
            if rng.chance(2, 3) {
                let wr = (br - 1 - rng.below(3) as i32).max(1);
                let t = at(f, wr);
                if p.sq[t as usize].is_none() {
                    p.sq[t as usize] = Some((Color::White, Kind::Pawn));
                }
            }
        }
    }
    p.stm = if rng.chance(2, 3) { Color::White } else { Color::Black };
    let p = if rng.chance(1, 2) { mirror(&p) } else { p };
    if is_legal_position(&p) && has_legal_move(&p) {
        Some(p)
    } else {
        None
    }
}

/// The corner-zugzwang family enumerated: defending king a1, its pawn on a2/a3/a4, attacking king
/// on one of seven squares, knight on any free square of the a1-f5 block, and none or one pair of
/// tempo pawns (black pawn on d-h 5-7, white pawn 1-3 squares in front of it), either side to
/// move. `idx` runs over the whole product; None = not a legal position.
pub fn stamma_family(idx: usize) -> Option<Pos> {
    const KINGS: [(i32, i32); 7] = [(2, 1), (2, 0), (3, 2), (3, 1), (2, 2), (3, 0), (1, 2)];
    let mut i = idx;
    let mut take = |n: usize| -> usize {
        let r = i % n;
        i /= n;
        r
    };
    let stm = take(2);
    let pr = 1 + take(3) as i32;
    let (kf, kr) = KINGS[take(7)];
    let nsq = take(30);
    let pair = take(46); // 0 = no tempo pawns, else file(5) x black rank(3) x gap(3)
    if i != 0 {
        return None;
    }
    let mut p = Pos::empty();
    p.sq[sq_at(0, 0)? as usize] = Some((Color::Black, Kind::King));
    p.sq[sq_at(0, pr)? as usize] = Some((Color::Black, Kind::Pawn));
    let ks = sq_at(kf, kr)?;
    if p.sq[ks as usize].is_some() {
        return None;
    }
    p.sq[ks as usize] = Some((Color::White, Kind::King));
    let ns = sq_at((nsq % 6) as i32, (nsq / 6) as i32)?;
    if p.sq[ns as usize].is_some() {
        return None;
    }
    p.sq[ns as usize] = Some((Color::White, Kind::Knight));
    if pair > 0 {
        let q = pair - 1;
        let f = 3 + (q % 5) as i32;
        let br = 4 + ((q / 5) % 3) as i32;
        let gap = 1 + (q / 15) as i32;
        let bs = sq_at(f, br)?;
        let ws = sq_at(f, br - gap)?;
        if br - gap < 1 || p.sq[bs as usize].is_some() || p.sq[ws as usize].is_some() {
            return None;
        }
        p.sq[bs as usize] = Some((Color::Black, Kind::Pawn));
        p.sq[ws as usize] = Some((Color::White, Kind::Pawn));
    }
    p.stm = if stm == 0 { Color::White } else { Color::Black };
    if is_legal_position(&p) && has_legal_move(&p) {
        Some(p)
    } else {
        None
    }
}
pub const STAMMA_FAMILY_SIZE: usize = 2 * 3 * 7 * 30 * 46;

const MATERIALS: &[(&[Kind], &[Kind])] = &[
    (&[Kind::Queen], &[]),
    (&[Kind::Rook], &[]),
    (&[Kind::Rook, Kind::Rook], &[]),
    (&[Kind::Bishop, Kind::Bishop], &[]),
    (&[Kind::Bishop, Kind::Knight], &[]),
    (&[Kind::Queen], &[Kind::Rook]),
    (&[Kind::Queen, Kind::Pawn], &[Kind::Pawn]),
    (&[Kind::Rook, Kind::Pawn, Kind::Pawn], &[Kind::Pawn, Kind::Knight]),
    (&[Kind::Queen, Kind::Rook], &[Kind::Queen]),
    (&[Kind::Pawn], &[]),
];

#[derive(Clone, Copy, PartialEq, Eq, Debug)]
pub enum Class {
    MateIn1,
    AvoidableMate, // some but not all moves allow the opponent a mate in one
    MatedSoon,     // side to move is mated within 2 against best play
    StalemateTrap, // some move stalemates the opponent
    Other,
}

/// A crowded back-rank trap: the side to move has its king behind three pawns and one rook on the
/// back rank; the opponent has a rook on the open e-file, a loose piece on the rook's file (taking
/// it lifts the guard of the back rank: mate in one by a QUIET rook move) and so many other men
/// that it has 40-60 legal replies. Devices that look at only part of a long move list (late-move
/// pruning, capped lists, narrow counters) lose the quiet mating reply only here.
pub fn crowded_back_rank_position(rng: &mut Rng) -> Option<Pos> {
    let mut p = Pos::empty();
    let f_r = rng.below(4) as usize; // victim's rook on a1..d1
    p.sq[6] = Some((Color::White, Kind::King));
    for s in [13usize, 14, 15] {
        p.sq[s] = Some((Color::White, Kind::Pawn));
    }
    p.sq[f_r] = Some((Color::White, Kind::Rook));
    p.sq[63] = Some((Color::Black, Kind::King));
    for s in [53usize, 54, 55] {
        p.sq[s] = Some((Color::Black, Kind::Pawn));
    }
    let r_rank = rng.range(3, 7) as usize;
    p.sq[r_rank * 8 + 4] = Some((Color::Black, Kind::Rook));
    p.sq[48 + f_r] = Some((Color::Black, *rng.pick(&[Kind::Knight, Kind::Bishop, Kind::Knight])));
    let n_extra = rng.range(6, 9);
    let mut placed = 0;
    let mut guard = 0;
    while placed < n_extra && guard < 200 {
        guard += 1;
        let s = rng.below(64) as usize;
        let (f, r) = (s % 8, s / 8);
        if p.sq[s].is_some() || r < 2 || r > 6 || f == f_r || (f == 4 && r < r_rank) || (f >= 5 && r >= 6) {
            continue;
        }
        p.sq[s] = Some((Color::Black, *rng.pick(&[Kind::Knight, Kind::Bishop, Kind::Knight, Kind::Bishop, Kind::Queen, Kind::Pawn])));
        placed += 1;
    }
    p.stm = Color::White;
    if !is_legal_position(&p) || in_check(&p, Color::White) {
        return None;
    }
    Some(if rng.chance(1, 2) { mirror(&p) } else { p })
}

pub fn classify(p: &Pos) -> Vec<Class> {
    let mut out = Vec::new();
    let legal = legal_moves(p);
    if legal.is_empty() {
        return out;
    }
    let mut s = Solver::new(400_000);
    if s.mate_in(p, 1) == Some(true) {
        out.push(Class::MateIn1);
    }
    let mut losing = 0;
    let mut stalemating = false;
    for m in &legal {
        let q = apply(p, *m);
        if is_stalemate(&q) {
            stalemating = true;
        }
        if s.mate_in(&q, 1) == Some(true) {
            losing += 1;
        }
    }
    if losing > 0 && losing < legal.len() {
        out.push(Class::AvoidableMate);
    }
    if losing == legal.len() || s.mated_in(p, 2) == Some(true) {
        out.push(Class::MatedSoon);
    }
    if stalemating {
        out.push(Class::StalemateTrap);
    }
    if out.is_empty() {
        out.push(Class::Other);
    }
    out
}

/// Positions 1-5 plies before a checkmate reached by oracle-driven random play (full material).
pub fn near_mate_from_walks(rng: &mut Rng, starts: &[Pos], want: usize, tries: usize) -> Vec<Pos> {
    let mut out = Vec::new();
    for _ in 0..tries {
        if out.len() >= want {
            break;
        }
        let mut p = starts[rng.below(starts.len() as u64) as usize].clone();
        let mut line = vec![p.clone()];
        for _ in 0..200 {
            let ms = legal_moves(&p);
            if ms.is_empty() {
                break;
            }
            // prefer moves that mate or check
            let mut chosen = None;
            for m in &ms {
                if is_checkmate(&apply(&p, *m)) && rng.chance(3, 4) {
                    chosen = Some(*m);
                    break;
                }
            }
            let m = chosen.unwrap_or_else(|| workload::choose_move(rng, &p, &ms, Policy::Tactical));
            p = apply(&p, m);
            line.push(p.clone());
        }
        if is_checkmate(&p) {
            let n = line.len();
            for back in 1..=5usize {
                if n > back {
                    let q = &line[n - 1 - back];
                    if has_legal_move(q) {
                        out.push(q.clone());
                    }
                }
            }
        }
    }
    out
}

pub fn check_root(root: &Root, classes: &[Class], depth: u8, h: &ZobristHasher, acc: &mut Acc, sample: bool) {
    check_root_with(root, classes, depth, h, acc, sample, None)
}

/// `exact`: distance-to-mate tables for three-man roots - every mate claim is then decided,
/// whatever its length (the budgeted solver stops at three moves).
pub fn check_root_with(root: &Root, classes: &[Class], depth: u8, _h: &ZobristHasher, acc: &mut Acc, sample: bool, exact: Option<&crate::oracle::dtm::Dtm>) {
    let p = &root.hist.end;
    let fen = p.to_fen();
    let r = run_search(&root.board, &root.table, None, depth);
    acc.evaluations += 1;
    let case = root_case("C11", root, depth, None);
    if let Some(pn) = &r.panic {
        acc.violation(format!("C11|panic|{}|D{}", fen, depth), format!("search panicked on {} at depth limit {}: {}", fen, depth, pn), case);
        return;
    }
    if acc.distinct.insert(hash64(&format!("{}|{}", fen, depth))) {
        for c in classes {
            acc.feature(&format!("{:?}", c));
        }
    }
    // walk the events: remember the last send of every iteration and pair sends with their lines
    let mut cur_depth = 0u8;
    let mut last_send: Option<Mv> = None;
    let mut final_of_depth: Vec<(u8, Mv)> = Vec::new();
    let mut pending_send: Option<Mv> = None;
    let mut all_sends: Vec<(u8, Mv)> = Vec::new();
    let mut last_line_of_depth: Vec<(u8, Info, String)> = Vec::new();
    let mut solver = Solver::new(3_000_000);
    for e in &r.report.events {
        match e {
            Ev::IterStart(d) => {
                if let Some(m) = last_send {
                    if cur_depth > 0 {
                        final_of_depth.push((cur_depth, m));
                    }
                }
                cur_depth = *d;
            }
            Ev::Send(b, _) => {
                let m = mv_of(b).ok();
                last_send = m;
                pending_send = m;
                if let Some(m) = m {
                    all_sends.push((cur_depth, m));
                }
            }
            Ev::Line(l) => {
                let info = match parse_info(l, true) {
                    Ok(i) => i,
                    Err(_) => continue, // C18's business
                };
                acc.count("info_lines", 1);
                let lcase = json!({"kind": "search", "property": "C11", "position_command": root.hist.command(), "root_fen": fen, "depth_limit": depth, "line": l});
                // the move this line reports on
                if let Some(m) = pending_send.take() {
                    let q = apply(p, m);
                    if is_stalemate(&q) {
                        acc.count("lines_for_stalemating_moves", 1);
                        if matches!(info.score, Score::Mate(_)) {
                            acc.violation(format!("C11|stalemate-score|{}|{}", fen, m), format!("{}: {} stalemates the opponent but is reported as a mate: {:?}", fen, m, l), lcase.clone());
                        }
                    }
                    if is_checkmate(&q) {
                        acc.count("lines_for_mating_moves", 1);
                        if info.score == Score::Mate(1) {
                            acc.count("mating_moves_reported_as_mate_1", 1);
                        }
                    }
                }
                if let Score::Mate(n) = info.score {
                    let table = exact.and_then(|d| d.mate_in_moves(p).ok());
                    if n > 0 && table.is_some() {
                        let truth = table.unwrap();
                        acc.count("positive_mate_claims_decided_by_table", 1);
                        if n > 3 {
                            acc.feature("mate_claim_longer_than_3_decided_exactly");
                        }
                        match truth {
                            Some(t) if t <= n as u32 => acc.count("positive_mate_claims_confirmed", 1),
                            _ => acc.violation(format!("C11|false-mate|{}|D{}|{}", fen, info.depth, n), format!("{}: line claims mate in {} but the shortest forced mate takes {} (exact distance-to-mate table): {:?}", fen, n, truth.map(|t| format!("{} moves", t)).unwrap_or_else(|| "for ever: the side to move cannot force mate".into()), l), lcase.clone()),
                        }
                    } else if n > 0 {
                        if n <= 3 {
                            match solver.mate_in(p, n as u32) {
                                Some(true) => acc.count("positive_mate_claims_confirmed", 1),
                                Some(false) => acc.violation(format!("C11|false-mate|{}|D{}|{}", fen, info.depth, n), format!("{}: line claims mate in {} but no forced mate in <= {} moves exists: {:?}", fen, n, n, l), lcase.clone()),
                                None => acc.count("unchecked_claims_budget", 1),
                            }
                        } else {
                            acc.count("unchecked_claims_deep", 1);
                        }
                    }
                }
                last_line_of_depth.retain(|(d, _, _)| *d != cur_depth);
                last_line_of_depth.push((cur_depth, info, l.clone()));
            }
        }
    }
    if let Some(m) = last_send {
        if cur_depth > 0 {
            final_of_depth.push((cur_depth, m));
        }
    }
    // negative claims: only the last line of a completed depth (all depths <= limit completed here)
    for (d, info, l) in &last_line_of_depth {
        if let Score::Mate(n) = info.score {
            if n < 0 {
                let lcase = json!({"kind": "search", "property": "C11", "position_command": root.hist.command(), "root_fen": fen, "depth_limit": depth, "line": l});
                if let Some(truth) = exact.and_then(|t| t.mated_in_moves(p).ok()) {
                    acc.count("negative_mate_claims_decided_by_table", 1);
                    match truth {
                        Some(t) if t <= n.unsigned_abs() as u32 => acc.count("negative_mate_claims_confirmed", 1),
                        _ => acc.violation(format!("C11|false-mated|{}|D{}|{}", fen, d, n), format!("{}: completed depth {} ends with {:?} but against best play the side to move is mated in {} (exact distance-to-mate table)", fen, d, l, truth.map(|t| format!("{} moves", t)).unwrap_or_else(|| "no number of moves: it is not lost".into())), lcase),
                    }
                } else if n.abs() <= 3 {
                    match solver.mated_in(p, n.unsigned_abs() as u32) {
                        Some(true) => acc.count("negative_mate_claims_confirmed", 1),
                        Some(false) => acc.violation(format!("C11|false-mated|{}|D{}|{}", fen, d, n), format!("{}: completed depth {} ends with {:?} but the side to move is not mated within {} moves against best play", fen, d, l, n.abs()), lcase),
                        None => acc.count("unchecked_claims_budget", 1),
                    }
                } else {
                    acc.count("unchecked_claims_deep", 1);
                }
            }
        }
    }
    // The move played is the last one handed back before the allowance expires, and the allowance
    // can expire anywhere. So: once iteration 1 has finished, every move handed back on a
    // mate-in-one root must mate; once iteration 2 has finished, no move handed back may allow a
    // mate in one when that can be avoided (judged on iterations 3.. of this run; the final move
    // of iterations 2 and 3 is covered as well).
    if classes.contains(&Class::MateIn1) {
        for (d, m) in &final_of_depth {
            if !is_checkmate(&apply(p, *m)) {
                acc.violation(format!("C11|mate1-missed|{}|d{}", fen, d), format!("{}: a mate in one exists but after iteration {} the move standing is {} which does not mate", fen, d, m), case.clone());
            }
        }
        for (d, m) in &all_sends {
            acc.count("sends_judged_mate_in_1", 1);
            if *d >= 2 && !is_checkmate(&apply(p, *m)) {
                acc.violation(format!("C11|mate1-abandoned|{}|d{}|{}", fen, d, m), format!("{}: a mate in one exists and iteration 1 has finished, yet during iteration {} the search hands back {} which does not mate (it would be played if the allowance expired then)", fen, d, m), case.clone());
            }
        }
    }
    if classes.contains(&Class::AvoidableMate) {
        let mut s2 = Solver::new(2_000_000);
        let mut losing: std::collections::HashMap<Mv, Option<bool>> = std::collections::HashMap::new();
        let mut is_losing = |m: Mv| -> Option<bool> { *losing.entry(m).or_insert_with(|| s2.mate_in(&apply(p, m), 1)) };
        for (d, m) in &final_of_depth {
            if *d >= 2 && *d <= 3 && is_losing(*m) == Some(true) {
                acc.violation(format!("C11|walks-into-mate|{}|d{}", fen, d), format!("{}: after iteration {} the move standing is {} which allows mate in one although other moves avoid it", fen, d, m), case.clone());
            }
        }
        for (d, m) in &all_sends {
            if *d >= 3 {
                acc.count("sends_judged_avoidable_mate", 1);
                if is_losing(*m) == Some(true) {
                    acc.violation(format!("C11|walks-into-mate-midway|{}|d{}|{}", fen, d, m), format!("{}: iteration 2 has finished, yet during iteration {} the search hands back {} which allows mate in one although other moves avoid it (it would be played if the allowance expired then)", fen, d, m), case.clone());
                }
            }
        }
    }
    if sample {
        acc.sample(json!({"root": fen, "classes": classes.iter().map(|c| format!("{:?}", c)).collect::<Vec<_>>(), "depth_limit": depth,
            "final_moves": final_of_depth.iter().map(|(d, m)| format!("d{} {}", d, m)).collect::<Vec<_>>(),
            "last_line": last_line_of_depth.last().map(|x| x.2.clone())}));
    }
}

pub fn run(tier: Tier, seed: u64) -> i32 {
    let mut run = Run::new("C11", tier, seed, "exploration");
    run.rule = "evaluation = one real search (virtual clock, all iterations up to the limit complete) on a root near mate or stalemate, judged by the oracle's full-width mate solver: (1) mate-in-1 roots: the move standing after every completed iteration mates; (2) roots where some but not all moves allow a mate in one: the move standing after iterations 2 and 3 is not one of them; (3) every line `mate N`, 0<N<=3, requires a forced mate in <= N; `mate -N` on the last line of a completed depth requires mated-in-N; (4) a line reporting on a move that stalemates the opponent must not carry a mate score. Roots: sampled endgame families (KQK, KRK, KRRK, KBBK, KBNK, KQKR, pawn endings, ...) biased to edge/corner kings, sparse material with a cornered king hemmed in by its own men (minor piece against minor piece, pawn or rook: smothered and corner mates), mates in one that only an under-promotion gives, three-man endings K+Q / K+R / K+P v K (men placed uniformly, true distance 4-7 moves) searched to depth 8-10 with EVERY mate claim, of any length, decided by exact distance-to-mate tables the oracle builds from its own rules (retrograde-style forward iteration; longest mates 10, 16 and 28 moves as published), zugzwang-prone corner endings (king behind its rook pawn against king and knight with tempo pawns, searched to depth 10), positions 1-5 plies before a checkmate in oracle-driven games with full material, the library's mate/stalemate entries. Black box: the same two clauses for the move PLAYED by the real binary under slices of 1-20 ms - a violation needs an info line of depth >= 2 (>= 3) whose own time field lies below the plan, i.e. the first (second) iteration had finished before the allowance ended. Also on the real binary: three-man roots under slices of 60-250 ms (12-20 plies deep), every positive mate claim decided by the tables. Non-trivial = root classified mate-in-1 / avoidable mate / mated soon / stalemate trap; distinct by (root FEN, depth limit)".into();
    run.assumptions = vec![
        "negative mate claims are judged only on the last line of a completed depth (intermediate lines describe the first move tried, not the position)".into(),
        "claims with |N| > 3 or beyond the solver's node budget are counted as unchecked, not decided".into(),
        "clause 2 is judged after iterations 2 and 3 only (exact search, C12); deeper iterations use speculative pruning".into(),
    ];
    let h = ZobristHasher::create_zobrist_hasher();
    let starts = workload::start_positions(seed, 30).unwrap_or_default();
    let n_jobs = tier.pick(160usize, 1600);
    let results = par::par_map(n_jobs, |j| {
        let mut acc = Acc::new();
        let mut rng = Rng::stream(seed, 11_000 + j as u64);
        let mut roots: Vec<(Pos, Vec<Class>)> = Vec::new();
        // family sample
        let mut tries = 0;
        while roots.len() < 36 && tries < 4000 {
            tries += 1;
            let (w, b) = MATERIALS[rng.below(MATERIALS.len() as u64) as usize];
            let stm = if rng.chance(2, 3) { Color::White } else { Color::Black };
            let cornered = tries % 5 == 0;
            let cand = if cornered { cornered_position(&mut rng) } else { material_position(&mut rng, w, b, stm) };
            if let Some(p) = cand {
                let cl = classify(&p);
                if cl.is_empty() {
                    continue;
                }
                if cornered {
                    if cl == vec![Class::Other] {
                        continue;
                    }
                    acc.count("cornered_king_sparse_material_roots", 1);
                }
                // keep all interesting ones and a few others
                if cl != vec![Class::Other] || rng.chance(1, 30) {
                    roots.push((p, cl));
                }
            }
        }
        // mates that only an under-promotion gives
        let mut found = 0;
        for _ in 0..60 {
            if found >= 2 {
                break;
            }
            if let Some(p) = underpromotion_mate_position(&mut rng) {
                let cl = classify(&p);
                if cl.contains(&Class::MateIn1) {
                    acc.count("underpromotion_only_mate_roots", 1);
                    roots.push((p, cl));
                    found += 1;
                }
            }
        }
        {
            let mut found = 0;
            for _ in 0..60 {
                if found >= 2 {
                    break;
                }
                if let Some(p) = crowded_back_rank_position(&mut rng) {
                    let cl = classify(&p);
                    if cl.contains(&Class::AvoidableMate) {
                        let mut s = Solver::new(400_000);
                        let crowded = legal_moves(&p).iter().any(|m| {
                            let q = apply(&p, *m);
                            legal_moves(&q).len() > 40 && s.mate_in(&q, 1) == Some(true)
                        });
                        if crowded {
                            acc.count("avoidable_mate_roots_where_the_mating_side_has_40_plus_replies", 1);
                            roots.push((p, cl));
                            found += 1;
                        }
                    }
                }
            }
        }
        for p in near_mate_from_walks(&mut rng, &starts, 10, 12) {
            let cl = classify(&p);
            if !cl.is_empty() {
                roots.push((p, cl));
            }
        }
        if j == 0 {
            for fen in ["4r1k1/5ppp/8/8/3n4/8/5PPP/3R2K1 w - -", "6k1/5ppp/8/8/8/8/5PPP/3R2K1 w - -", "7k/5Q2/6K1/8/8/8/8/8 w - -", "7k/8/4K3/8/8/8/8/6Q1 w - -", "r1bqkb1r/pppp1ppp/2n2n2/4p2Q/2B1P3/8/PPPP1PPP/RNB1K1NR w KQkq -", "7k/5K2/8/8/8/8/8/6Q1 b - -", "k7/8/1K6/8/8/8/8/2Q5 w - -"] {
                let p = Pos::parse_fen(fen).unwrap();
                let cl = classify(&p);
                roots.push((p, cl));
            }
        }
        // zugzwang-prone corner endings, searched to depth 10
        let mut deep: Vec<Pos> = Vec::new();
        for _ in 0..200 {
            if deep.len() >= 2 {
                break;
            }
            if let Some(p) = stamma_position(&mut rng) {
                deep.push(p);
            }
        }
        // fixed members every run looks at: the cage with one pair of tempo pawns in which the
        // defender's best reply puts the ATTACKER in zugzwang (no forced mate in six moves; a search
        // that lets the attacker pass sees "mate 3"), with its colour-flipped and mirrored twins
        if j == 0 {
            for fen in ["8/4p3/8/8/4P3/p2K4/8/k1N5 w - -", "8/3p4/8/8/3P4/4K2p/8/5N1k w - -"] {
                if let Ok(p) = Pos::parse_fen(fen) {
                    if is_legal_position(&p) {
                        deep.push(mirror(&p));
                        deep.push(p);
                    }
                }
            }
        }
        // the enumerated family: a slice of it per job (thorough: all of it, quick: every 48th member)
        {
            let step: usize = std::env::var("VERIF_C11_STAMMA_STEP").ok().and_then(|v| v.parse().ok()).unwrap_or(if std::env::var("VERIF_SHADOW").map(|v| v == "1").unwrap_or(false) { 960 } else if tier == Tier::Quick { 48 } else { 1 });
            let per_job = STAMMA_FAMILY_SIZE / n_jobs + 1;
            let from = j * per_job;
            let mut k = from + (seed as usize % step);
            while k < (from + per_job).min(STAMMA_FAMILY_SIZE) {
                if let Some(p) = stamma_family(k) {
                    deep.push(p);
                }
                k += step;
            }
        }
        for p in deep {
            let cl = classify(&p);
            let hist = History { start: p.clone(), moves: vec![], end: p };
            if let Ok(root) = make_root(hist, &h) {
                acc.count("corner_zugzwang_roots_searched_to_depth_10", 1);
                check_root(&root, &cl, 10, &h, &mut acc, false);
            }
        }
        // three-man endings (K+Q, K+R, K+P v K, either colour, either side to move) searched to
        // depth 10 (Q, R) / 9 (P), every mate claim decided by the exact tables
        {
            let dtm = crate::oracle::dtm::dtm();
            let mut made = 0;
            let mut tries = 0;
            // (the shadow run on the shipped-profile build leaves the two expensive families out)
            let shadow = std::env::var("VERIF_SHADOW").map(|v| v == "1").unwrap_or(false);
            let want = std::env::var("VERIF_C11_THREE_MAN").ok().and_then(|v| v.parse().ok()).unwrap_or(if shadow { 0 } else { tier.pick(2usize, 5) });
            while made < want && tries < 4000 {
                tries += 1;
                let kind = *rng.pick(&[Kind::Queen, Kind::Queen, Kind::Rook, Kind::Rook, Kind::Pawn]);
                let att = if rng.chance(1, 2) { Color::White } else { Color::Black };
                let stm = if rng.chance(3, 4) { att } else { att.other() };
                // uniformly placed men (not the edge-biased sampler): the long mates live in the
                // middle of the board, and a claim can only be too short where the truth is long
                let mut p = Pos::empty();
                let (a, b, c) = (rng.below(64) as usize, rng.below(64) as usize, rng.below(64) as usize);
                if a == b || a == c || b == c || (kind == Kind::Pawn && (c < 8 || c >= 56)) {
                    continue;
                }
                p.sq[a] = Some((att, Kind::King));
                p.sq[b] = Some((att.other(), Kind::King));
                p.sq[c] = Some((att, kind));
                p.stm = stm;
                if !is_legal_position(&p) || legal_moves(&p).is_empty() {
                    continue;
                }
                // true distance 4..7 moves (the iterations up to the limit can see that far), or a draw now and then
                let dist = match dtm.probe(&p) {
                    Ok(Some((_, plies))) => Some((plies + 1) / 2),
                    Ok(None) => None,
                    Err(_) => continue,
                };
                match dist {
                    Some(d) if (4..=7).contains(&d) => {}
                    None if rng.chance(1, 12) => {}
                    _ => continue,
                }
                let cl = classify(&p);
                let hist = History { start: p.clone(), moves: vec![], end: p.clone() };
                if let Ok(root) = make_root(hist, &h) {
                    made += 1;
                    acc.count("three_man_roots_judged_by_exact_tables", 1);
                    match dtm.probe(&p) {
                        Ok(Some((_, plies))) => {
                            acc.max("longest_true_mate_among_three_man_roots_plies", plies as u64);
                            if plies >= 9 {
                                acc.feature("three_man_root_with_true_mate_of_5_or_more_moves");
                            }
                        }
                        _ => acc.feature("three_man_root_drawn"),
                    }
                    check_root_with(&root, &cl, if kind == Kind::Pawn { tier.pick(8, 9) } else { tier.pick(9, 10) }, &h, &mut acc, false, Some(dtm));
                }
            }
        }
        for (i, (p, cl)) in roots.into_iter().enumerate() {
            let pieces = p.sq.iter().filter(|x| x.is_some()).count();
            let hist = History { start: p.clone(), moves: vec![], end: p };
            let root = match make_root(hist, &h) {
                Ok(r) => r,
                Err(e) => {
                    acc.inconclusive.push(format!("position handler rejected an oracle position: {}", e));
                    continue;
                }
            };
            let depth = if pieces <= 5 { 6 } else if pieces <= 10 { 5 } else { 4 };
            check_root(&root, &cl, depth, &h, &mut acc, j < 2 && i == 0);
        }
        acc
    });
    for a in results {
        run.acc.merge(a, &["longest_true_mate_among_three_man_roots_plies"]);
    }
    // the move played by the real binary under short slices
    {
        let mut rng = Rng::stream(seed, 0xC11_BB);
        let mut bb_roots: Vec<(Pos, bool, Vec<Mv>)> = Vec::new();
        for fen in ["k7/8/1K6/8/8/8/8/7R w - -", "6k1/5ppp/8/8/8/8/5PPP/3R2K1 w - -", "7k/8/4K3/8/8/8/8/6Q1 w - -", "r1bqkb1r/pppp1ppp/2n2n2/4p2Q/2B1P3/8/PPPP1PPP/RNB1K1NR w KQkq -"] {
            let p = Pos::parse_fen(fen).unwrap();
            // the oracle decides, not the list
            if Solver::new(200_000).mate_in(&p, 1) == Some(true) {
                bb_roots.push((p, true, vec![]));
            }
        }
        for _ in 0..2_000 {
            if bb_roots.len() >= 16 {
                break;
            }
            if let Some(p) = underpromotion_mate_position(&mut rng) {
                bb_roots.push((p, true, vec![]));
            }
        }
        let mut tries = 0;
        while bb_roots.len() < tier.pick(60, 400) && tries < 200_000 {
            tries += 1;
            let (w, b) = MATERIALS[rng.below(MATERIALS.len() as u64) as usize];
            let stm = if rng.chance(1, 2) { Color::White } else { Color::Black };
            let cand = if tries % 7 == 0 { near_mate_from_walks(&mut rng, &starts, 1, 2).pop() } else { material_position(&mut rng, w, b, stm) };
            if let Some(p) = cand {
                let legal = legal_moves(&p);
                if legal.len() < 2 {
                    continue;
                }
                let mut s = Solver::new(200_000);
                if s.mate_in(&p, 1) == Some(true) {
                    bb_roots.push((p, true, vec![]));
                } else {
                    let losing: Vec<Mv> = legal.iter().copied().filter(|m| s.mate_in(&apply(&p, *m), 1) == Some(true)).collect();
                    if !losing.is_empty() && losing.len() < legal.len() && bb_roots.iter().filter(|r| !r.1).count() < bb_roots.len() / 2 + 4 {
                        bb_roots.push((p, false, losing));
                    }
                }
            }
        }
        super::timed::c11_blackbox(&mut run, &bb_roots);
    }
    run.floor_distinct = 200;
    run.finish()
}
