//! Black-box side: builds of the real `walleye` binary, one-shot CLI runs, and a UCI session
//! driver that records the history at the client boundary (send events before writing, receive
//! events when read, one monotonic clock).

use std::io::{BufRead, BufReader, Read, Write};
use std::path::{Path, PathBuf};
use std::process::{Child, ChildStdin, Command, Stdio};
use std::sync::atomic::{AtomicU64, Ordering};
use std::sync::mpsc::{channel, Receiver, RecvTimeoutError};
use std::time::{Duration, Instant};

fn build(target: &str, hooked: bool) -> Result<PathBuf, String> {
    if std::env::var("VERIF_SHADOW").map(|v| v == "1").unwrap_or(false) {
        return Err("shadow run: in-process parts only".into());
    }
    let root = crate::ev::root();
    let dir = format!("{}/.target/{}", root, target);
    let log = format!("{}/.work/build-{}.log", root, target);
    let _ = std::fs::create_dir_all(format!("{}/.work", root));
    // a snapshot of the repository (WALLEYE_REPO) holds committed files only; Cargo.lock is
    // git-ignored there, so pin the same dependency versions by copying the live one
    if let Ok(r) = std::env::var("WALLEYE_REPO") {
        let lock = format!("{}/Cargo.lock", r);
        if !std::path::Path::new(&lock).exists() {
            let _ = std::fs::copy("/repo/Cargo.lock", &lock);
        }
    }
    let mut cmd = Command::new("cargo");
    cmd.current_dir(&root)
        .args(["build", "--release", "--offline", "--manifest-path", &format!("{}/Cargo.toml", std::env::var("WALLEYE_REPO").unwrap_or_else(|_| "/repo".to_string())), "--target-dir", &dir])
        .env("CARGO_NET_OFFLINE", "true");
    if hooked {
        cmd.env("RUSTFLAGS", "--cfg walleye_verif");
    } else {
        cmd.env_remove("RUSTFLAGS");
    }
    let out = cmd.output().map_err(|e| format!("cannot run cargo: {}", e))?;
    let _ = std::fs::write(&log, [&out.stdout[..], &out.stderr[..]].concat());
    if !out.status.success() {
        return Err(format!("cargo build ({}) failed, see {}: {}", target, log, String::from_utf8_lossy(&out.stderr).lines().filter(|l| l.starts_with("error")).take(5).collect::<Vec<_>>().join(" | ")));
    }
    let bin = PathBuf::from(format!("{}/release/walleye", dir));
    if bin.exists() {
        Ok(bin)
    } else {
        Err(format!("{} missing after build", bin.display()))
    }
}

/// Guard off: exactly what a user runs (generic CPU, because cargo runs from /verif and /repo's
/// .cargo/config with target-cpu=native is therefore not applied - valgrind needs that).
pub fn build_plain() -> Result<PathBuf, String> {
    build("bb-plain", false)
}

/// Same sources with `--cfg walleye_verif`: event log + failpoints available through env vars.
pub fn build_hooked() -> Result<PathBuf, String> {
    build("bb-hooked", true)
}

/// The delay injector (compiled from harness/ptdelay.c on first use) and the comma-separated
/// addresses, taken from the symbol table of `bin`, of the standard library's entry points
/// through which a thread gets at standard output. None when the tool cannot be built or used
/// (no C compiler, ptrace forbidden) or the binary has no such symbols.
pub fn ptdelay_tool(bin: &Path) -> Option<(PathBuf, Option<String>, Option<String>)> {
    use std::sync::{Mutex, OnceLock};
    static TOOL: OnceLock<Option<PathBuf>> = OnceLock::new();
    static ADDRS: OnceLock<Mutex<std::collections::HashMap<PathBuf, (Option<String>, Option<String>)>>> = OnceLock::new();
    let tool = TOOL
        .get_or_init(|| {
            let root = crate::ev::root();
            let out = PathBuf::from(format!("{}/.target/tools/ptdelay", root));
            let src = format!("{}/harness/ptdelay.c", root);
            let _ = std::fs::create_dir_all(format!("{}/.target/tools", root));
            let fresh = match (std::fs::metadata(&out).and_then(|m| m.modified()), std::fs::metadata(&src).and_then(|m| m.modified())) {
                (Ok(o), Ok(s)) => o >= s,
                _ => false,
            };
            if !fresh {
                let tmp = format!("{}.{}", out.display(), std::process::id());
                let ok = Command::new("cc").args(["-O2", "-o", &tmp, &src]).output().map(|o| o.status.success()).unwrap_or(false);
                if !ok || std::fs::rename(&tmp, &out).is_err() {
                    return None;
                }
            }
            // does ptrace work here at all?
            let ok = Command::new(&out).args(["0", "1", "-", "ffffffffffffffff", "--", "true"]).output().map(|o| o.status.success()).unwrap_or(false);
            if ok {
                Some(out)
            } else {
                None
            }
        })
        .clone()?;
    let map = ADDRS.get_or_init(|| Mutex::new(Default::default()));
    let mut g = map.lock().unwrap();
    let addrs = g
        .entry(bin.to_path_buf())
        .or_insert_with(|| {
            let text = match Command::new("nm").arg("-C").arg(bin).output() {
                Ok(o) => String::from_utf8_lossy(&o.stdout).to_string(),
                Err(_) => return (None, None),
            };
            let mut so: Vec<String> = Vec::new();
            let mut ho: Vec<String> = Vec::new();
            for l in text.lines() {
                let mut it = l.splitn(3, ' ');
                let (a, k, name) = (it.next().unwrap_or(""), it.next().unwrap_or(""), it.next().unwrap_or(""));
                if !(k == "t" || k == "T") {
                    continue;
                }
                let addr = a.trim_start_matches('0').to_string();
                if addr.is_empty() {
                    continue;
                }
                let stdout_hit = name == "std::io::stdio::_print"
                    || name == "std::io::stdio::stdout"
                    || name == "std::io::stdio::print_to"
                    || name.starts_with("<std::io::stdio::Stdout as std::io::Write>::")
                    || name.starts_with("<&std::io::stdio::Stdout as std::io::Write>::")
                    || name == "<std::io::stdio::Stdout>::lock"
                    || name == "std::io::stdio::Stdout::lock";
                // channel operations are generic and therefore instantiated in the engine's own
                // crate; only the outermost entry points are taken (no closures, no internals)
                let chan = (name.starts_with("std::sync::mpmc::Sender<") || name.starts_with("std::sync::mpmc::Receiver<") || name.starts_with("std::sync::mpsc::Sender<") || name.starts_with("std::sync::mpsc::Receiver<") || name.starts_with("std::sync::mpsc::SyncSender<")
                    || name.starts_with("<std::sync::mpmc::Sender<") || name.starts_with("<std::sync::mpmc::Receiver<") || name.starts_with("<std::sync::mpsc::Sender<") || name.starts_with("<std::sync::mpsc::Receiver<") || name.starts_with("<std::sync::mpsc::SyncSender<"))
                    && !name.contains("{{closure}}") && !name.contains("{closure")
                    && ["::send", "::try_send", "::try_recv", "::recv", "::recv_timeout", "::recv_deadline"].iter().any(|s| name.ends_with(s));
                let drop_end = (name.starts_with("core::ptr::drop_in_place<std::sync::mpsc::Receiver<") || name.starts_with("core::ptr::drop_in_place<std::sync::mpsc::Sender<") || name.starts_with("core::ptr::drop_in_place::<std::sync::mpsc::Receiver<") || name.starts_with("core::ptr::drop_in_place::<std::sync::mpsc::Sender<")) && name.ends_with(">>");
                let thread_start = name == "<std::sys::thread::unix::Thread>::new::thread_start" || name == "std::sys::thread::unix::Thread::new::thread_start";
                if stdout_hit {
                    so.push(addr);
                } else if chan || drop_end || thread_start {
                    ho.push(addr);
                }
            }
            so.truncate(30);
            ho.truncate(30);
            (if so.is_empty() { None } else { Some(so.join(",")) }, if ho.is_empty() { None } else { Some(ho.join(",")) })
        })
        .clone();
    if addrs.0.is_none() && addrs.1.is_none() {
        return None;
    }
    Some((tool, addrs.0, addrs.1))
}

pub struct CliOut {
    pub status: Option<i32>,
    pub stdout: String,
    pub stderr: String,
    pub timed_out: bool,
}

static WORK_SEQ: AtomicU64 = AtomicU64::new(0);

pub fn scratch_dir() -> PathBuf {
    let d = PathBuf::from(format!("{}/.work/run-{}-{}", crate::ev::root(), std::process::id(), WORK_SEQ.fetch_add(1, Ordering::Relaxed)));
    let _ = std::fs::create_dir_all(&d);
    d
}

pub fn run_cli<S: AsRef<std::ffi::OsStr>>(bin: &Path, args: &[S], timeout_ms: u64) -> Result<CliOut, String> {
    let dir = scratch_dir();
    let mut child = Command::new(bin)
        .args(args)
        .current_dir(&dir)
        .stdin(Stdio::null())
        .stdout(Stdio::piped())
        .stderr(Stdio::piped())
        .spawn()
        .map_err(|e| e.to_string())?;
    let mut so = child.stdout.take().unwrap();
    let mut se = child.stderr.take().unwrap();
    let t1 = std::thread::spawn(move || {
        let mut v = Vec::new();
        let _ = so.read_to_end(&mut v);
        v
    });
    let t2 = std::thread::spawn(move || {
        let mut v = Vec::new();
        let _ = se.read_to_end(&mut v);
        v
    });
    let start = Instant::now();
    let mut timed_out = false;
    let status = loop {
        match child.try_wait() {
            Ok(Some(s)) => break s.code(),
            Ok(None) => {
                if start.elapsed() > Duration::from_millis(timeout_ms) {
                    timed_out = true;
                    let _ = child.kill();
                    let _ = child.wait();
                    break None;
                }
                std::thread::sleep(Duration::from_millis(2));
            }
            Err(_) => break None,
        }
    };
    let stdout = String::from_utf8_lossy(&t1.join().unwrap_or_default()).to_string();
    let stderr = String::from_utf8_lossy(&t2.join().unwrap_or_default()).to_string();
    let _ = std::fs::remove_dir_all(&dir);
    Ok(CliOut { status, stdout, stderr, timed_out })
}

// ------------------------------------------------------------------------------------------------
// UCI session
// ------------------------------------------------------------------------------------------------

#[derive(Clone, Copy, PartialEq, Eq, Debug)]
pub enum Dir {
    Sent,
    Out,
    Err,
}

#[derive(Clone, Debug)]
pub struct Event {
    pub t: Instant,
    pub dir: Dir,
    pub line: String,
}

pub struct Engine {
    child: Child,
    stdin: Option<ChildStdin>,
    rx: Receiver<(Instant, Dir, Option<String>)>,
    pub pid: u32,
    pub workdir: PathBuf,
    pub transcript: Vec<Event>,
    pub stdout_closed: bool,
    pub t0: Instant,
    keep_dir: bool,
    release: std::sync::Arc<std::sync::atomic::AtomicBool>,
    /// set by the helper thread of `write_async` when every piece has been written
    pub written: std::sync::Arc<std::sync::atomic::AtomicBool>,
}

pub struct SpawnOpts {
    pub env: Vec<(String, String)>,
    pub pin_cpu: Option<usize>,
    pub valgrind: bool,
    /// run under `strace -f -e inject=write:delay_exit=<us>`: every write system call of either
    /// thread is followed by a delay, which stretches the gap between two writes that belong
    /// together (a schedule perturbation at a point where the kernel may pre-empt anyway)
    pub strace_write_delay_us: Option<u32>,
    /// run under `ptdelay` (harness/ptdelay.c): every arrival of a thread at one of the standard
    /// library's entry points for standard output (`_print`, `<Stdout as Write>::*`,
    /// `Stdout::lock`, `stdout()`) keeps that thread - and only that thread - stopped for a
    /// pseudo-random time of up to the given number of microseconds: (max_us, seed)
    pub ptdelay: Option<(u32, u64)>,
    /// run under `strace -e inject=read:error=EIO:when=N+`: from the N-th read system call of the
    /// process on, every read fails with EIO - standard input is lost without an end of file
    pub strace_read_fail_from: Option<u32>,
    /// which entry points `ptdelay` covers (default: standard output only)
    pub ptset: PtSet,
}

#[derive(Clone, Copy, PartialEq, Eq, Debug, Default)]
pub enum PtSet {
    /// `_print`, `<Stdout as Write>::*`, `Stdout::lock`, `stdout()`
    #[default]
    Stdout,
    /// the hand-off between the two threads: channel `send` / `try_recv` / `recv*`, the drop of
    /// either channel end, the first instruction of a new thread
    Handoff,
    Both,
}

impl Default for SpawnOpts {
    fn default() -> Self {
        SpawnOpts { env: vec![], pin_cpu: None, valgrind: false, strace_write_delay_us: None, ptdelay: None, strace_read_fail_from: None, ptset: PtSet::Stdout }
    }
}

impl Engine {
    pub fn spawn(bin: &Path, opts: &SpawnOpts) -> Result<Engine, String> {
        let workdir = scratch_dir();
        let mut cmd = if opts.valgrind {
            let mut c = Command::new("valgrind");
            c.args(["--quiet", "--error-exitcode=97", "--leak-check=no", &format!("--log-file={}/valgrind.log", workdir.display())]);
            c.arg(bin);
            c
        } else if let Some(n) = opts.strace_read_fail_from {
            let mut c = Command::new("strace");
            c.args(["-f", "-q", "-e", "trace=read", "-e", &format!("inject=read:error=EIO:when={}+", n), "-o", "/dev/null"]);
            c.arg(bin);
            c
        } else if let Some(us) = opts.strace_write_delay_us {
            let mut c = Command::new("strace");
            c.args(["-f", "-q", "-e", "trace=write", "-e", &format!("inject=write:delay_exit={}", us), "-o", "/dev/null"]);
            c.arg(bin);
            c
        } else if let (Some((max_us, seed)), Some((tool, addrs))) = (opts.ptdelay, ptdelay_tool(bin).and_then(|(t, so, ho)| {
            let a = match opts.ptset {
                PtSet::Stdout => so,
                PtSet::Handoff => ho,
                PtSet::Both => match (so, ho) {
                    (Some(a), Some(b)) => Some(format!("{},{}", a, b)),
                    (a, b) => a.or(b),
                },
            };
            a.map(|a| (t, a))
        })) {
            let mut c = Command::new(tool);
            c.args([max_us.to_string(), seed.to_string(), format!("{}/ptdelay.stats", workdir.display()), addrs, "--".to_string()]);
            c.arg(bin);
            c
        } else if let Some(cpu) = opts.pin_cpu {
            let mut c = Command::new("taskset");
            c.args(["-c", &cpu.to_string()]);
            c.arg(bin);
            c
        } else {
            Command::new(bin)
        };
        cmd.current_dir(&workdir).stdin(Stdio::piped()).stdout(Stdio::piped()).stderr(Stdio::piped());
        for (k, v) in &opts.env {
            cmd.env(k, v);
        }
        let mut child = cmd.spawn().map_err(|e| format!("spawn {}: {}", bin.display(), e))?;
        let mut pid = child.id();
        if opts.strace_write_delay_us.is_some() || opts.strace_read_fail_from.is_some() || (opts.ptdelay.is_some() && !opts.valgrind && ptdelay_tool(bin).is_some()) {
            // the engine is strace's (ptdelay's) child: /proc verdicts must look at the engine itself
            // Everything that looks at the engine through /proc (is the search thread gone? does the
            // process spin?) needs the engine's own pid. Going on with the wrapper's pid would make
            // `thread_count` say "one thread" for ever, a go would be taken for settled while the
            // search thread can still print, and its late line would be judged as a line of the next
            // go (seen once on a machine loaded three times over: a false alarm of C18). So: wait
            // long enough, and give the session up if the engine cannot be found.
            let t_end = Instant::now() + Duration::from_secs(15);
            let mut found = false;
            loop {
                let kids = std::fs::read_to_string(format!("/proc/{}/task/{}/children", child.id(), child.id())).unwrap_or_default();
                if let Some(k) = kids.split_whitespace().next().and_then(|k| k.parse::<u32>().ok()) {
                    // the child of the wrapper must already BE the engine (after its exec)
                    let exe = std::fs::read_link(format!("/proc/{}/exe", k)).unwrap_or_default();
                    if exe == bin || exe.file_name() == bin.file_name() {
                        pid = k;
                        found = true;
                        break;
                    }
                }
                if Instant::now() > t_end || matches!(child.try_wait(), Ok(Some(_))) {
                    break;
                }
                std::thread::sleep(Duration::from_millis(2));
            }
            if !found {
                let _ = child.kill();
                let _ = child.wait();
                return Err("the engine process under the tracing wrapper could not be identified".into());
            }
        }
        let stdin = child.stdin.take();
        let so = child.stdout.take().unwrap();
        let se = child.stderr.take().unwrap();
        let (tx, rx) = channel();
        let tx2 = tx.clone();
        std::thread::spawn(move || {
            let mut r = BufReader::new(so);
            let mut buf = Vec::new();
            loop {
                buf.clear();
                match r.read_until(b'\n', &mut buf) {
                    Ok(0) | Err(_) => {
                        let _ = tx.send((Instant::now(), Dir::Out, None));
                        break;
                    }
                    Ok(_) => {
                        let t = Instant::now();
                        let line = String::from_utf8_lossy(&buf).trim_end_matches(['\n', '\r']).to_string();
                        if tx.send((t, Dir::Out, Some(line))).is_err() {
                            break;
                        }
                    }
                }
            }
        });
        std::thread::spawn(move || {
            let mut r = BufReader::new(se);
            let mut buf = Vec::new();
            loop {
                buf.clear();
                match r.read_until(b'\n', &mut buf) {
                    Ok(0) | Err(_) => break,
                    Ok(_) => {
                        let t = Instant::now();
                        let line = String::from_utf8_lossy(&buf).trim_end_matches(['\n', '\r']).to_string();
                        if tx2.send((t, Dir::Err, Some(line))).is_err() {
                            break;
                        }
                    }
                }
            }
        });
        Ok(Engine { child, stdin, rx, pid, workdir, transcript: Vec::new(), stdout_closed: false, t0: Instant::now(), keep_dir: false, release: Default::default(), written: Default::default() })
    }

    /// Record the send event, then write the line (history at the client boundary).
    pub fn send(&mut self, line: &str) -> Instant {
        let t = Instant::now();
        self.transcript.push(Event { t, dir: Dir::Sent, line: line.to_string() });
        if let Some(si) = self.stdin.as_mut() {
            let _ = si.write_all(line.as_bytes());
            let _ = si.write_all(b"\n");
            let _ = si.flush();
        }
        t
    }

    pub fn send_raw(&mut self, bytes: &[u8]) -> Instant {
        let t = Instant::now();
        self.transcript.push(Event { t, dir: Dir::Sent, line: String::from_utf8_lossy(bytes).trim_end().to_string() });
        if let Some(si) = self.stdin.as_mut() {
            let _ = si.write_all(bytes);
            let _ = si.flush();
        }
        t
    }

    /// Record a line as sent without writing it (the bytes go out through `write_async`).
    pub fn note_sent(&mut self, line: &str) {
        self.transcript.push(Event { t: Instant::now(), dir: Dir::Sent, line: line.to_string() });
    }

    /// Hand standard input to a helper thread that writes the given pieces (optionally pausing
    /// between them) and then either closes the stream or parks it until the engine is dropped.
    pub fn write_async(&mut self, pieces: Vec<Vec<u8>>, close: bool, pause: Option<Duration>) -> std::thread::JoinHandle<()> {
        let stdin = self.stdin.take();
        let release = self.release.clone();
        let written = self.written.clone();
        std::thread::spawn(move || {
            if let Some(mut si) = stdin {
                for p in &pieces {
                    if si.write_all(p).is_err() {
                        written.store(true, Ordering::Relaxed);
                        return;
                    }
                    let _ = si.flush();
                    if let Some(d) = pause {
                        std::thread::sleep(d);
                    }
                }
                written.store(true, Ordering::Relaxed);
                // keep the stream open until the engine is killed / dropped
                while !close && !release.load(Ordering::Relaxed) {
                    std::thread::sleep(Duration::from_millis(5));
                }
                drop(si);
            }
        })
    }

    fn absorb(&mut self, item: (Instant, Dir, Option<String>)) -> Option<usize> {
        match item.2 {
            Some(line) => {
                self.transcript.push(Event { t: item.0, dir: item.1, line });
                Some(self.transcript.len() - 1)
            }
            None => {
                self.stdout_closed = true;
                None
            }
        }
    }

    /// Read until a stdout line satisfies `pred` or `timeout` passes. Returns the index of the
    /// matching transcript event.
    pub fn wait_for(&mut self, pred: impl Fn(&str) -> bool, timeout: Duration) -> Option<usize> {
        let deadline = Instant::now() + timeout;
        loop {
            let now = Instant::now();
            if now >= deadline {
                return None;
            }
            match self.rx.recv_timeout(deadline - now) {
                Ok(item) => {
                    let is_out = item.1 == Dir::Out;
                    if let Some(i) = self.absorb(item) {
                        if is_out && pred(&self.transcript[i].line) {
                            return Some(i);
                        }
                    } else if self.stdout_closed {
                        // keep draining stderr for a moment, then give up
                        while let Ok(it) = self.rx.recv_timeout(Duration::from_millis(20)) {
                            self.absorb(it);
                        }
                        return None;
                    }
                }
                Err(RecvTimeoutError::Timeout) => return None,
                Err(RecvTimeoutError::Disconnected) => return None,
            }
        }
    }

    /// Collect whatever arrives during `dur`.
    pub fn drain(&mut self, dur: Duration) {
        let deadline = Instant::now() + dur;
        loop {
            let now = Instant::now();
            if now >= deadline {
                return;
            }
            match self.rx.recv_timeout(deadline - now) {
                Ok(item) => {
                    self.absorb(item);
                }
                Err(_) => return,
            }
        }
    }

    pub fn close_stdin(&mut self) {
        self.transcript.push(Event { t: Instant::now(), dir: Dir::Sent, line: "<EOF>".into() });
        self.stdin = None;
    }

    pub fn exited(&mut self) -> Option<Option<i32>> {
        match self.child.try_wait() {
            Ok(Some(s)) => Some(s.code()),
            _ => None,
        }
    }

    /// Wait up to `timeout` for the process to end; Some(status) if it did.
    pub fn wait_exit(&mut self, timeout: Duration) -> Option<Option<i32>> {
        let deadline = Instant::now() + timeout;
        loop {
            if let Some(s) = self.exited() {
                return Some(s);
            }
            if Instant::now() >= deadline {
                return None;
            }
            self.drain(Duration::from_millis(5));
        }
    }

    /// Number of OS threads of the child (via /proc).
    pub fn thread_count(&self) -> usize {
        std::fs::read_dir(format!("/proc/{}/task", self.pid)).map(|d| d.count()).unwrap_or(0)
    }

    /// utime + stime of the whole process in seconds (via /proc/<pid>/stat).
    pub fn cpu_seconds(&self) -> Option<f64> {
        let s = std::fs::read_to_string(format!("/proc/{}/stat", self.pid)).ok()?;
        let rest = &s[s.rfind(')')? + 2..];
        let f: Vec<&str> = rest.split(' ').collect();
        let ut: f64 = f.get(11)?.parse().ok()?;
        let st: f64 = f.get(12)?.parse().ok()?;
        let hz = unsafe { libc::sysconf(libc::_SC_CLK_TCK) } as f64;
        Some((ut + st) / hz)
    }

    /// State letter of the main thread (R running, S sleeping, ...).
    pub fn main_state(&self) -> Option<char> {
        let s = std::fs::read_to_string(format!("/proc/{}/stat", self.pid)).ok()?;
        s[s.rfind(')')? + 2..].chars().next()
    }

    pub fn stderr_text(&self) -> String {
        self.transcript.iter().filter(|e| e.dir == Dir::Err).map(|e| e.line.clone()).collect::<Vec<_>>().join("\n")
    }

    pub fn out_lines_since(&self, idx: usize) -> Vec<&Event> {
        self.transcript[idx..].iter().filter(|e| e.dir == Dir::Out).collect()
    }

    /// (arrivals at a breakpoint, arrivals that were delayed) as last written by `ptdelay`
    /// (rewritten every 64 arrivals and at exit).
    pub fn ptdelay_stats(&self) -> Option<(u64, u64)> {
        let t = std::fs::read_to_string(self.workdir.join("ptdelay.stats")).ok()?;
        let num = |key: &str| -> Option<u64> { t.split_whitespace().find_map(|w| w.strip_prefix(key)).and_then(|v| v.parse().ok()) };
        Some((num("hits=")?, num("delayed=")?))
    }

    pub fn keep_workdir(&mut self) {
        self.keep_dir = true;
    }

    pub fn kill(&mut self) {
        self.release.store(true, Ordering::Relaxed);
        let _ = self.child.kill();
        let _ = self.child.wait();
    }

    /// Compact rendering of the transcript for reports / replay files.
    pub fn transcript_text(&self, max_lines: usize) -> Vec<String> {
        let n = self.transcript.len();
        let from = n.saturating_sub(max_lines);
        self.transcript[from..]
            .iter()
            .map(|e| {
                format!(
                    "{:>9.3}ms {} {}",
                    e.t.duration_since(self.t0).as_secs_f64() * 1000.0,
                    match e.dir {
                        Dir::Sent => ">>",
                        Dir::Out => "<<",
                        Dir::Err => "!!",
                    },
                    if e.line.len() > 400 { let mut k = 400; while !e.line.is_char_boundary(k) { k -= 1; } format!("{}...[{} bytes]", &e.line[..k], e.line.len()) } else { e.line.clone() }
                )
            })
            .collect()
    }
}

impl Drop for Engine {
    fn drop(&mut self) {
        self.kill();
        if !self.keep_dir {
            let _ = std::fs::remove_dir_all(&self.workdir);
        }
    }
}
