//! Workload generators shared by the monitors (DESIGN.md section 5).

use crate::oracle::*;
use crate::rng::Rng;

/// Core of the start library (DESIGN 12.8). Every entry is validated at start-up.
pub const LIBRARY: &[&str] = &[
    "rnbqkbnr/pppppppp/8/8/8/8/PPPPPPPP/RNBQKBNR w KQkq -",
    "r3k2r/p1ppqpb1/bn2pnp1/3PN3/1p2P3/2N2Q1p/PPPBBPPP/R3K2R w KQkq -",
    "8/2p5/3p4/KP5r/1R3p1k/8/4P1P1/8 w - -",
    "r3k2r/Pppp1ppp/1b3nbN/nP6/BBP1P3/q4N2/Pp1P2PP/R2Q1RK1 w kq -",
    "r2q1rk1/pP1p2pp/Q4n2/bbp1p3/Np6/1B3NBn/pPPP1PPP/R3K2R b KQ -",
    "rnbq1k1r/pp1Pbppp/2p5/8/2B5/8/PPP1NnPP/RNBQK2R w KQ -",
    "r4rk1/1pp1qppp/p1np1n2/2b1p1B1/2B1P1b1/P1NP1N2/1PP1QPPP/R4RK1 w - -",
    // castling
    "r3k2r/8/8/8/8/8/8/R3K2R w KQkq -",
    "r3k2r/8/8/8/8/8/8/R3K2R b KQkq -",
    "r3k2r/pppppppp/8/8/8/8/PPPPPPPP/R3K2R w KQkq -",
    "8/8/8/8/8/8/6k1/4K2R w K -",
    "8/8/8/8/8/8/2k5/R3K3 w Q -",
    "4k2r/6K1/8/8/8/8/8/8 b k -",
    "r3k3/2K5/8/8/8/8/8/8 b q -",
    "r3k2r/1b4bq/8/8/8/8/7B/R3K2R w KQkq -",
    "r3k2r/8/3Q4/8/8/5q2/8/R3K2R b KQkq -",
    // corner pieces facing rooks that still carry a right (corner-to-corner captures, king takes rook)
    "r3k2r/8/8/8/8/8/8/B3K2B w kq -",
    "b3k2b/8/8/8/8/8/8/R3K2R b KQ -",
    "r3k2r/8/8/8/8/8/8/Q3K2Q w kq -",
    "r3k2r/6K1/8/8/8/8/8/8 w kq -",
    "8/8/8/8/8/8/1k6/R3K2R b KQ -",
    "r3k2r/p6p/8/8/8/8/P6P/R3K2R w KQkq -",
    // en passant
    "4k3/8/8/8/1p1p1p1p/8/P1P1P1P1/4K3 w - -",
    "4k3/p1p1p1p1/8/1P1P1P1P/8/8/8/4K3 b - -",
    "8/8/8/8/k2p3R/8/4P3/4K3 w - -",
    "8/8/3p4/KPp4r/1R3p1k/8/4P1P1/8 w - c6",
    "8/8/1k6/2b5/2pP4/8/5K2/8 b - d3",
    "rnbqkbnr/ppp1pppp/8/8/3pP3/8/PPPP1PPP/RNBQKBNR b KQkq e3",
    // promotion
    "4k3/PPP1P1PP/8/8/8/8/ppp1p1pp/4K3 w - -",
    "n1n5/PPPk4/8/8/8/8/4Kppp/5N1N b - -",
    "r3k2r/1P4P1/8/8/8/8/1p4p1/R3K2R w KQkq -",
    "4k2r/P7/8/8/8/8/8/4K3 w k -",
    "2K2r2/4P3/8/8/8/8/8/3k4 w - -",
    // endgames
    "8/8/8/3k4/8/3K4/3Q4/8 w - -",
    "8/8/8/3k4/8/3K4/3R4/8 w - -",
    "8/8/8/3k4/8/3K4/3P4/8 w - -",
    "8/8/8/3k4/8/3K4/2BN4/8 w - -",
    "8/5pk1/6p1/8/8/6P1/r4PK1/1R6 w - -",
    "8/8/8/8/8/5k2/6p1/6K1 b - -",
    "8/8/2k5/5q2/5n2/8/5K2/8 b - -",
    // near the end
    "6k1/5ppp/8/8/8/8/5PPP/3R2K1 w - -",
    "7k/5Q2/6K1/8/8/8/8/8 w - -",
    "7k/8/4K3/8/8/8/8/6Q1 w - -",
    "k7/2Q5/1K6/8/8/8/8/8 b - -",
    "7k/5QQ1/8/8/8/8/8/K7 b - -",
    "r1bqkb1r/pppp1ppp/2n2n2/4p2Q/2B1P3/8/PPPP1PPP/RNB1K1NR w KQkq -",    // extreme mobility (218 legal moves: nine queens), both colours - move-list capacities, counters in narrow types
    "R6R/3Q4/1Q4Q1/4Q3/2Q4Q/Q4Q2/pp1Q4/kBNN1KB1 w - -",
    "3Q4/1Q4Q1/4Q3/2Q4R/Q4Q2/3Q4/1Q4Rp/1K1BBNNk w - -",
    "Kbnn1kb1/PP1q4/q4q2/2q4q/4q3/1q4q1/3q4/r6r b - -",
    "1k1bbnnK/1q4rP/3q4/q4q2/2q4r/4q3/1q4q1/3q4 b - -",
];

pub fn library() -> Result<Vec<Pos>, String> {
    let mut v = Vec::new();
    for fen in LIBRARY {
        let p = Pos::parse_fen(fen).map_err(|e| format!("library fen {}: {}", fen, e))?;
        legal_position_reason(&p).map_err(|e| format!("library position {} is not legal: {}", fen, e))?;
        v.push(p);
    }
    Ok(v)
}

/// Library + seeded oracle walks from the start position (opening / middlegame positions).
pub fn start_positions(seed: u64, extra: usize) -> Result<Vec<Pos>, String> {
    let mut v = library()?;
    let mut rng = Rng::stream(seed, 0xABCD);
    for _ in 0..extra {
        let mut p = Pos::start();
        let n = rng.range(8, 40);
        for _ in 0..n {
            let ms = legal_moves(&p);
            if ms.is_empty() {
                break;
            }
            let m = choose_move(&mut rng, &p, &ms, Policy::Mixed);
            p = apply(&p, m);
        }
        if has_legal_move(&p) {
            v.push(p);
        }
    }
    Ok(v)
}

#[derive(Clone, Copy, PartialEq, Eq, Debug)]
pub enum Policy {
    Uniform,
    /// prefer captures, promotions, castling, en passant, double steps, checks
    Tactical,
    /// prefer reversible piece moves (creates repetitions)
    Shuffle,
    /// push pawns
    Race,
    Mixed,
}

pub fn choose_move(rng: &mut Rng, p: &Pos, legal: &[Mv], policy: Policy) -> Mv {
    let policy = if policy == Policy::Mixed {
        *rng.pick(&[Policy::Uniform, Policy::Tactical, Policy::Tactical, Policy::Shuffle, Policy::Race])
    } else {
        policy
    };
    let weight = |m: &Mv| -> u64 {
        let (_, k) = p.sq[m.from as usize].unwrap();
        match policy {
            Policy::Uniform | Policy::Mixed => 1,
            Policy::Tactical => {
                let mut w = 1;
                if is_capture(p, *m) {
                    w += 6;
                }
                if is_ep_capture(p, *m) {
                    w += 40;
                }
                if is_castle(p, *m) {
                    w += 30;
                }
                if m.promo.is_some() {
                    w += 10;
                }
                if k == Kind::Pawn && (rank_of(m.to) - rank_of(m.from)).abs() == 2 {
                    w += 6;
                }
                if k == Kind::Rook && [0u8, 7, 56, 63].contains(&m.from) {
                    w += 3;
                }
                w
            }
            Policy::Shuffle => {
                if k != Kind::Pawn && !is_capture(p, *m) && !is_castle(p, *m) {
                    8
                } else {
                    1
                }
            }
            Policy::Race => {
                if k == Kind::Pawn {
                    8
                } else {
                    1
                }
            }
        }
    };
    let total: u64 = legal.iter().map(weight).sum();
    let mut x = rng.below(total);
    for m in legal {
        let w = weight(m);
        if x < w {
            return *m;
        }
        x -= w;
    }
    legal[0]
}

fn random_empty(rng: &mut Rng, p: &Pos, ranks: std::ops::RangeInclusive<i32>) -> Option<u8> {
    for _ in 0..64 {
        let s = rng.below(64) as u8;
        if p.sq[s as usize].is_none() && ranks.contains(&rank_of(s)) {
            return Some(s);
        }
    }
    None
}

/// Direct synthesis of a legal position with geometry that games rarely reach.
pub fn synth_position(rng: &mut Rng) -> Pos {
    loop {
        if let Some(p) = try_synth(rng) {
            return p;
        }
    }
}

fn try_synth(rng: &mut Rng) -> Option<Pos> {
    let mut p = Pos::empty();
    let mut stm_fixed: Option<Color> = None;
    // kings (and castling furniture)
    if rng.chance(1, 3) {
        let white_home = rng.chance(3, 4);
        let black_home = rng.chance(3, 4);
        if white_home {
            p.sq[4] = Some((Color::White, Kind::King));
            if rng.chance(3, 4) {
                p.sq[7] = Some((Color::White, Kind::Rook));
                p.castle[WK] = rng.chance(4, 5);
            }
            if rng.chance(3, 4) {
                p.sq[0] = Some((Color::White, Kind::Rook));
                p.castle[WQ] = rng.chance(4, 5);
            }
        }
        if black_home {
            p.sq[60] = Some((Color::Black, Kind::King));
            if rng.chance(3, 4) {
                p.sq[63] = Some((Color::Black, Kind::Rook));
                p.castle[BK] = rng.chance(4, 5);
            }
            if rng.chance(3, 4) {
                p.sq[56] = Some((Color::Black, Kind::Rook));
                p.castle[BQ] = rng.chance(4, 5);
            }
        }
    }
    for c in [Color::White, Color::Black] {
        if p.king_sq(c).is_none() {
            let s = if rng.chance(1, 3) {
                // rim / corner kings exercise the sentinel ring
                *rng.pick(&[0u8, 7, 56, 63, 1, 8, 6, 15, 48, 57, 55, 62, 3, 24, 31, 59])
            } else {
                rng.below(64) as u8
            };
            if p.sq[s as usize].is_some() {
                return None;
            }
            p.sq[s as usize] = Some((c, Kind::King));
        }
    }
    // en passant pair
    if rng.chance(1, 3) {
        let stm = if rng.chance(1, 2) { Color::White } else { Color::Black };
        let mover = stm.other();
        let f = rng.below(8) as i32;
        let (pawn_r, target_r, origin_r) = if mover == Color::Black { (4, 5, 6) } else { (3, 2, 1) };
        let ps = sq_at(f, pawn_r)?;
        let ts = sq_at(f, target_r)?;
        let os = sq_at(f, origin_r)?;
        if p.sq[ps as usize].is_some() || p.sq[ts as usize].is_some() || p.sq[os as usize].is_some() {
            return None;
        }
        p.sq[ps as usize] = Some((mover, Kind::Pawn));
        for df in [-1, 1] {
            if rng.chance(1, 2) {
                if let Some(a) = sq_at(f + df, pawn_r) {
                    if p.sq[a as usize].is_none() {
                        p.sq[a as usize] = Some((stm, Kind::Pawn));
                    }
                }
            }
        }
        // keep target and origin empty from here on by marking them afterwards
        p.ep = Some(ts);
        stm_fixed = Some(stm);
    }
    // pawns about to promote
    if rng.chance(1, 3) {
        for _ in 0..rng.range(1, 3) {
            let c = if rng.chance(1, 2) { Color::White } else { Color::Black };
            let r = if c == Color::White { 6 } else { 1 };
            let f = rng.below(8) as i32;
            let s = sq_at(f, r)?;
            if p.sq[s as usize].is_none() && !is_reserved(&p, s) {
                p.sq[s as usize] = Some((c, Kind::Pawn));
            }
        }
    }
    // random material
    let n = match rng.below(4) {
        0 => rng.range(0, 3),
        1 => rng.range(2, 8),
        _ => rng.range(4, 20),
    };
    for _ in 0..n {
        let c = if rng.chance(1, 2) { Color::White } else { Color::Black };
        let k = *rng.pick(&[Kind::Pawn, Kind::Pawn, Kind::Pawn, Kind::Knight, Kind::Bishop, Kind::Rook, Kind::Rook, Kind::Queen]);
        let ranks = if k == Kind::Pawn { 1..=6 } else { 0..=7 };
        if let Some(s) = random_empty(rng, &p, ranks) {
            if !is_reserved(&p, s) {
                p.sq[s as usize] = Some((c, k));
            }
        }
    }
    // side to move
    let wc = in_check(&p, Color::White);
    let bc = in_check(&p, Color::Black);
    p.stm = match (stm_fixed, wc, bc) {
        (_, true, true) => return None,
        (Some(s), _, _) => s,
        (None, true, false) => Color::White,
        (None, false, true) => Color::Black,
        (None, false, false) => {
            if rng.chance(1, 2) {
                Color::White
            } else {
                Color::Black
            }
        }
    };
    if is_legal_position(&p) {
        Some(p)
    } else {
        None
    }
}

/// squares that must stay empty for the ep target to be valid
fn is_reserved(p: &Pos, s: u8) -> bool {
    if let Some(t) = p.ep {
        let origin = if rank_of(t) == 5 { t + 8 } else { t - 8 };
        s == t || s == origin
    } else {
        false
    }
}

/// Systematic castling family: one castling type, enemy king anywhere, at most one extra enemy
/// piece anywhere. `idx` enumerates the family; None = not a legal position (skipped).
pub const CASTLE_FAMILY_SIZE: usize = 4 * 64 * (1 + 5 * 64);

pub fn castle_family(idx: usize) -> Option<Pos> {
    let per_type = 64 * (1 + 5 * 64);
    let ty = idx / per_type;
    let rest = idx % per_type;
    let ksq = (rest / (1 + 5 * 64)) as u8;
    let extra = rest % (1 + 5 * 64);
    let mut p = Pos::empty();
    let (us, home, rook_sq) = match ty {
        0 => (Color::White, 4u8, 7u8),
        1 => (Color::White, 4, 0),
        2 => (Color::Black, 60, 63),
        _ => (Color::Black, 60, 56),
    };
    p.sq[home as usize] = Some((us, Kind::King));
    p.sq[rook_sq as usize] = Some((us, Kind::Rook));
    p.castle[ty] = true;
    p.stm = us;
    if p.sq[ksq as usize].is_some() {
        return None;
    }
    p.sq[ksq as usize] = Some((us.other(), Kind::King));
    if extra > 0 {
        let e = extra - 1;
        let kind = [Kind::Pawn, Kind::Knight, Kind::Bishop, Kind::Rook, Kind::Queen][e / 64];
        let s = (e % 64) as u8;
        if p.sq[s as usize].is_some() {
            return None;
        }
        p.sq[s as usize] = Some((us.other(), kind));
    }
    if is_legal_position(&p) {
        Some(p)
    } else {
        None
    }
}

/// Sampled en-passant geometry: capturing pawn, double-stepped pawn, both kings anywhere, one
/// slider of either colour anywhere (pins and discoveries along rank, file and diagonals).
pub fn ep_family(rng: &mut Rng) -> Pos {
    loop {
        let mut p = Pos::empty();
        let f = rng.below(8) as i32;
        let df = if rng.chance(1, 2) { -1 } else { 1 };
        if !(0..8).contains(&(f + df)) {
            continue;
        }
        // white to move, black pawn just double-stepped to rank 5 (index 4)
        p.sq[sq_at(f, 4).unwrap() as usize] = Some((Color::Black, Kind::Pawn));
        p.sq[sq_at(f + df, 4).unwrap() as usize] = Some((Color::White, Kind::Pawn));
        if rng.chance(1, 4) {
            if let Some(s) = sq_at(f - df, 4) {
                p.sq[s as usize] = Some((Color::White, Kind::Pawn));
            }
        }
        p.ep = sq_at(f, 5);
        p.stm = Color::White;
        let reserved = [sq_at(f, 5).unwrap(), sq_at(f, 6).unwrap()];
        let mut ok = true;
        for (c, k) in [
            (Color::White, Kind::King),
            (Color::Black, Kind::King),
            (if rng.chance(1, 2) { Color::White } else { Color::Black }, *rng.pick(&[Kind::Rook, Kind::Bishop, Kind::Queen])),
        ] {
            let s = rng.below(64) as u8;
            if p.sq[s as usize].is_some() || reserved.contains(&s) {
                ok = false;
                break;
            }
            p.sq[s as usize] = Some((c, k));
        }
        if !ok || !is_legal_position(&p) {
            continue;
        }
        return if rng.chance(1, 2) { mirror(&p) } else { p };
    }
}

/// Feature flags of a position (DESIGN 12.7), used for distinct_nontrivial.
pub fn position_features(p: &Pos, legal: &[Mv]) -> Vec<&'static str> {
    let mut f = Vec::new();
    if p.castle.iter().any(|&x| x) {
        f.push("castling_right_present");
        let (ki, qi) = if p.stm == Color::White { (WK, WQ) } else { (BK, BQ) };
        let n_castle = legal.iter().filter(|m| is_castle(p, **m)).count();
        if n_castle > 0 {
            f.push("castling_move_legal");
        }
        let rights_stm = p.castle[ki] as usize + p.castle[qi] as usize;
        if rights_stm > n_castle {
            f.push("castling_refused");
        }
    }
    if p.ep.is_some() {
        f.push("ep_target_present");
        if legal.iter().any(|m| is_ep_capture(p, *m)) {
            f.push("ep_capture_legal");
        } else if pseudo_moves(p).iter().any(|m| is_ep_capture(p, *m)) {
            f.push("ep_capture_refused");
        }
    }
    if legal.iter().any(|m| m.promo.is_some()) {
        f.push("promotion_available");
        if legal.iter().any(|m| m.promo.is_some() && is_capture(p, *m)) {
            f.push("capture_promotion_available");
        }
    }
    if let Some(k) = p.king_sq(p.stm) {
        let n = attackers(p, k, p.stm.other());
        if n >= 1 {
            f.push("in_check");
        }
        if n >= 2 {
            f.push("double_check");
        }
    }
    if legal.is_empty() {
        f.push("terminal");
    }
    f
}

/// "Capture storm": two nearly full ranks of one side's men with the other side's queens, rooks and
/// knights right in front of and behind them, the side with the heavy pieces to move - 30 to 60
/// legal captures in one position (list capacities, narrow counters of the capture generator).
pub fn capture_storm_position(rng: &mut Rng) -> Pos {
    loop {
        let mut p = Pos::empty();
        let att = if rng.chance(1, 2) { Color::White } else { Color::Black };
        let def = if att == Color::White { Color::Black } else { Color::White };
        // squares are rank * 8 + file; the defender's men on ranks r and r+1, attackers on r-1 and r+2
        let r = rng.range(2, 5) as usize; // defender ranks r, r+1 (0-based 2..=4 -> never the edge ranks)
        let mut def_left: Vec<Kind> = vec![Kind::Knight, Kind::Knight, Kind::Bishop, Kind::Bishop, Kind::Rook, Kind::Rook, Kind::Queen];
        rng.shuffle(&mut def_left);
        let mut pawns = 8;
        for rank in [r, r + 1] {
            for f in 0..8 {
                if rng.chance(1, 10) {
                    continue;
                }
                let k = if pawns > 0 && rng.chance(1, 2) {
                    pawns -= 1;
                    Kind::Pawn
                } else if let Some(k) = def_left.pop() {
                    k
                } else if pawns > 0 {
                    pawns -= 1;
                    Kind::Pawn
                } else {
                    continue;
                };
                p.sq[rank * 8 + f] = Some((def, k));
            }
        }
        let mut queens = 0;
        let mut others: Vec<Kind> = vec![Kind::Knight, Kind::Knight, Kind::Rook, Kind::Rook, Kind::Bishop, Kind::Bishop];
        rng.shuffle(&mut others);
        for rank in [r - 1, r + 2] {
            for f in 0..8 {
                if rng.chance(1, 8) {
                    continue;
                }
                let k = if queens < 9 && rng.chance(2, 3) {
                    queens += 1;
                    Kind::Queen
                } else if let Some(k) = others.pop() {
                    k
                } else {
                    continue;
                };
                p.sq[rank * 8 + f] = Some((att, k));
            }
        }
        // kings on free squares of the remaining ranks
        let free: Vec<usize> = (0..64).filter(|s| p.sq[*s].is_none() && (s / 8 + 1 < r || s / 8 > r + 2)).collect();
        if free.len() < 2 {
            continue;
        }
        let a = free[rng.below(free.len() as u64) as usize];
        let b = free[rng.below(free.len() as u64) as usize];
        if a == b {
            continue;
        }
        p.sq[a] = Some((att, Kind::King));
        p.sq[b] = Some((def, Kind::King));
        p.stm = att;
        if is_legal_position(&p) && has_legal_move(&p) {
            return p;
        }
    }
}

/// "Queen storm": a legal position with many mutually attacking queens (and a few other pieces)
/// and both kings tucked away behind their own men, so that capture sequences explode.
pub fn queen_storm_position(rng: &mut Rng) -> Pos {
    loop {
        let mut p = Pos::empty();
        // white king a1 behind a2,b1,b2 ; black king h8 behind g8,h7,g7
        p.sq[0] = Some((Color::White, Kind::King));
        for s in [8u8, 1, 9] {
            p.sq[s as usize] = Some((Color::White, *rng.pick(&[Kind::Pawn, Kind::Knight, Kind::Queen, Kind::Rook])));
        }
        p.sq[1] = Some((Color::White, *rng.pick(&[Kind::Knight, Kind::Queen, Kind::Rook])));
        p.sq[63] = Some((Color::Black, Kind::King));
        for s in [55u8, 62, 54] {
            p.sq[s as usize] = Some((Color::Black, *rng.pick(&[Kind::Pawn, Kind::Knight, Kind::Queen, Kind::Rook])));
        }
        p.sq[62] = Some((Color::Black, *rng.pick(&[Kind::Knight, Kind::Queen, Kind::Rook])));
        let n = rng.range(10, 22);
        for _ in 0..n {
            let s = rng.below(64) as usize;
            if p.sq[s].is_some() {
                continue;
            }
            let c = if rng.chance(1, 2) { Color::White } else { Color::Black };
            let k = *rng.pick(&[Kind::Queen, Kind::Queen, Kind::Queen, Kind::Rook, Kind::Knight, Kind::Bishop]);
            if p.count(c, Kind::Queen) >= 9 && k == Kind::Queen {
                continue;
            }
            p.sq[s] = Some((c, k));
        }
        p.stm = if rng.chance(1, 2) { Color::White } else { Color::Black };
        if is_legal_position(&p) && has_legal_move(&p) && !in_check(&p, p.stm) {
            return p;
        }
    }
}

/// Legal position rich in large material swings: pawns about to promote with captures available
/// on the last rank, and queens that can be taken and taken back.
pub fn swing_position(rng: &mut Rng) -> Pos {
    loop {
        let mut p = Pos::empty();
        let wk = *rng.pick(&[4u8, 6, 2, 1, 12, 14]);
        let bk = *rng.pick(&[60u8, 62, 58, 57, 52, 54]);
        p.sq[wk as usize] = Some((Color::White, Kind::King));
        p.sq[bk as usize] = Some((Color::Black, Kind::King));
        // pawns on the seventh / second rank with enemy pieces to capture on the last rank
        for _ in 0..rng.range(1, 4) {
            let white = rng.chance(1, 2);
            let f = rng.below(8) as i32;
            let (pr, lr, c) = if white { (6, 7, Color::White) } else { (1, 0, Color::Black) };
            let ps = sq_at(f, pr).unwrap();
            if p.sq[ps as usize].is_some() {
                continue;
            }
            p.sq[ps as usize] = Some((c, Kind::Pawn));
            for df in [-1, 1] {
                if rng.chance(2, 3) {
                    if let Some(t) = sq_at(f + df, lr) {
                        if p.sq[t as usize].is_none() {
                            p.sq[t as usize] = Some((c.other(), *rng.pick(&[Kind::Rook, Kind::Knight, Kind::Bishop, Kind::Queen])));
                        }
                    }
                }
            }
        }
        // queens and other pieces scattered so that exchanges are on
        for _ in 0..rng.range(4, 14) {
            let s = rng.below(64) as usize;
            if p.sq[s].is_some() {
                continue;
            }
            let c = if rng.chance(1, 2) { Color::White } else { Color::Black };
            let k = *rng.pick(&[Kind::Queen, Kind::Queen, Kind::Rook, Kind::Knight, Kind::Bishop, Kind::Pawn, Kind::Pawn]);
            if k == Kind::Pawn && (rank_of(s as u8) == 0 || rank_of(s as u8) == 7) {
                continue;
            }
            p.sq[s] = Some((c, k));
        }
        p.stm = if rng.chance(1, 2) { Color::White } else { Color::Black };
        if is_legal_position(&p) && has_legal_move(&p) {
            return p;
        }
    }
}

/// Legal position in which double pawn steps that can be answered by an en-passant capture are
/// one or two plies away: pawns of both sides still on their start squares with enemy pawns on
/// the neighbouring files of their fourth rank, a few pieces around. At search depths 1-3 the
/// double step is then the last ply before the horizon and the en-passant capture belongs to the
/// capture search.
pub fn ep_horizon_position(rng: &mut Rng) -> Pos {
    loop {
        let mut p = Pos::empty();
        let wk = *rng.pick(&[4u8, 6, 2, 0, 7]);
        let bk = *rng.pick(&[60u8, 62, 58, 56, 63]);
        p.sq[wk as usize] = Some((Color::White, Kind::King));
        p.sq[bk as usize] = Some((Color::Black, Kind::King));
        for _ in 0..rng.range(2, 6) {
            let white_steps = rng.chance(1, 2);
            let f = rng.below(8) as i32;
            // the pawn that will double-step and an enemy pawn beside its landing square
            let (start_r, land_r, c) = if white_steps { (1, 3, Color::White) } else { (6, 4, Color::Black) };
            let s0 = sq_at(f, start_r).unwrap();
            let mid = sq_at(f, (start_r + land_r) / 2).unwrap();
            let land = sq_at(f, land_r).unwrap();
            if p.sq[s0 as usize].is_some() || p.sq[mid as usize].is_some() || p.sq[land as usize].is_some() {
                continue;
            }
            p.sq[s0 as usize] = Some((c, Kind::Pawn));
            for df in [-1, 1] {
                if rng.chance(2, 3) {
                    if let Some(t) = sq_at(f + df, land_r) {
                        if p.sq[t as usize].is_none() {
                            p.sq[t as usize] = Some((c.other(), Kind::Pawn));
                        }
                    }
                }
            }
        }
        for _ in 0..rng.range(0, 7) {
            let s = rng.below(64) as usize;
            if p.sq[s].is_some() {
                continue;
            }
            let c = if rng.chance(1, 2) { Color::White } else { Color::Black };
            let k = *rng.pick(&[Kind::Queen, Kind::Rook, Kind::Knight, Kind::Bishop, Kind::Knight, Kind::Bishop]);
            p.sq[s] = Some((c, k));
        }
        p.stm = if rng.chance(1, 2) { Color::White } else { Color::Black };
        if is_legal_position(&p) && has_legal_move(&p) {
            return p;
        }
    }
}
