//! `wmon go-job <seed> <n_go> <scale>`: the real two-thread `go` composition
//! (`find_and_play_best_move`: spawn search thread, poll channel, print bestmove) run in-process
//! on tiny positions, with output captured and the event log kept in memory. This is the program
//! that runs under Miri (UB + data-race detector, one schedule per seed) and under TSan.
//! Its own oracle judges every answer and runs the event-log checker; exit 0 only if all is well.

use crate::draw_table::DrawTable;
use crate::glue::*;
use crate::oracle::*;
use crate::rng::Rng;
use crate::sess::{analyse_log, parse_log};
use crate::verif;
use crate::zobrist::ZobristHasher;
use std::time::{Duration, Instant};

const TINY: &[&str] = &[
    "7k/8/4K3/8/8/8/8/6Q1 w - -",
    "8/8/8/3k4/8/3K4/3R4/8 w - -",
    "4k3/P7/8/8/8/8/8/4K3 w - -",
    "4k3/8/8/8/8/8/8/4K2R w K -",
    "4k3/8/8/3pP3/8/8/8/4K3 w - d6",
    "6k1/5ppp/8/8/8/8/5PPP/3R2K1 w - -",
    "k7/2Q5/1K6/8/8/8/8/8 b - -",
];

pub fn run(seed: u64, n_go: usize, scale: &str) -> i32 {
    let mut rng = Rng::stream(seed, 0x60);
    verif::log_to_memory();
    verif::global_capture_start();
    if let Ok(fp) = std::env::var("WMON_FP") {
        verif::set_failpoints(&fp);
    }
    // calibrate: how long does the per-go hasher construction take in this execution mode?
    let t0 = Instant::now();
    let h = ZobristHasher::create_zobrist_hasher();
    let t_table = t0.elapsed().as_millis() as u64;
    let mut problems: Vec<String> = Vec::new();
    let mut answered = 0;
    for i in 0..n_go {
        let fen = TINY[rng.below(TINY.len() as u64) as usize];
        let pos = Pos::parse_fen(fen).unwrap();
        let mut board = match engine_from_pos(&pos) {
            Ok(b) => b,
            Err(e) => {
                println!("GO-JOB harness: {}", e);
                return 2;
            }
        };
        let mut dt = DrawTable::new();
        dt.add_board_to_draw_table(&board);
        // slices around the table construction time so that all three paths are seen: deadline
        // before the first send (fallback), between sends, after several iterations
        let slice = match (scale, rng.below(4)) {
            (_, 0) => 0,
            ("miri", 1) => t_table / 2 + 1,
            ("miri", 2) => t_table + t_table / 4 + 2,
            ("miri", _) => t_table * 2 + 5,
            (_, 1) => 1 + rng.below(3),
            (_, 2) => 3 + rng.below(8),
            (_, _) => 10 + rng.below(20),
        };
        let clock = if slice == 0 { 0 } else { 100 + (slice as f64 / 0.8).round() as u64 };
        let line = format!("go {} {} movestogo 1", if pos.stm == Color::White { "wtime" } else { "btime" }, clock);
        let toks: Vec<&str> = line.split(' ').collect();
        let legal = legal_moves(&pos);
        let after = crate::uci::verif_find_and_play_best_move(&toks, &mut board, Instant::now(), &mut dt);
        let out = verif::global_capture_take();
        verif::global_capture_start();
        let bms: Vec<&String> = out.iter().filter(|l| l.starts_with("bestmove")).collect();
        if bms.len() != 1 {
            problems.push(format!("go #{} on {}: {} bestmove lines", i, fen, bms.len()));
            continue;
        }
        let text = bms[0].strip_prefix("bestmove ").unwrap_or("");
        if legal.is_empty() {
            if text != "0000" && text != "(none)" {
                problems.push(format!("go #{} on terminal {}: answered {}", i, fen, text));
            }
        } else {
            match parse_mv(text) {
                Some(m) if legal.contains(&m) => {
                    if fields_of(&after) != fields_of_pos(&apply(&pos, m)) {
                        problems.push(format!("go #{} on {}: board returned for {} is not the position after that move", i, fen, text));
                    }
                }
                _ => problems.push(format!("go #{} on {}: bestmove {} is not legal", i, fen, text)),
            }
        }
        answered += 1;
    }
    // the search threads are detached: wait for all of them to log their exit so that the
    // process (and Miri) does not end with live threads
    let t_end = Instant::now() + Duration::from_secs(if scale == "miri" { 600 } else { 20 });
    loop {
        let log = verif::peek_memory_log();
        let starts = log.iter().filter(|l| l.contains(" search_start")).count();
        let exits = log.iter().filter(|l| l.contains(" search_exit")).count();
        if starts == exits && starts >= answered.min(n_go) {
            break;
        }
        if Instant::now() > t_end {
            problems.push(format!("search threads still running at the end ({} started, {} exited)", starts, exits));
            break;
        }
        std::thread::sleep(Duration::from_millis(1));
    }
    // give the exiting threads a moment to finish their destructors
    std::thread::sleep(Duration::from_millis(if scale == "miri" { 50 } else { 5 }));
    let log = verif::take_memory_log();
    let recs = parse_log(&log.join("\n"));
    let gos = analyse_log(&recs);
    let mut sigs: Vec<String> = Vec::new();
    for g in &gos {
        sigs.push(g.signature.clone());
        for p in &g.problems {
            problems.push(format!("event log [{}]: {}", g.signature, p));
        }
        if g.search_panicked {
            problems.push(format!("search thread panicked [{}]", g.signature));
        }
    }
    sigs.sort();
    sigs.dedup();
    println!("GO-JOB seed={} gos={} answered={} t_table_ms={} failpoint_hits={} signatures={:?}", seed, n_go, answered, t_table, verif::FAILPOINT_HITS.load(std::sync::atomic::Ordering::Relaxed), sigs);
    let _ = h;
    if problems.is_empty() {
        println!("GO-JOB ok");
        0
    } else {
        for p in problems {
            println!("GO-JOB problem: {}", p);
        }
        1
    }
}
