//! UCI session layer on top of bb::Engine: handshake, position tracking by the oracle, `go`
//! with plan computation by the repo's own functions, event-log parsing for the hooked build.

use crate::bb::{Dir, Engine, SpawnOpts};
use crate::board::PieceColor;
use crate::glue::*;
use crate::mon::searchlib::History;
use crate::oracle::*;
use crate::par;
use crate::rng::Rng;
use std::path::{Path, PathBuf};
use std::time::{Duration, Instant};

pub const WATCHDOG: Duration = Duration::from_secs(10);

pub struct Sess {
    pub eng: Engine,
    pub cur: Option<Pos>,
    pub log_path: Option<PathBuf>,
    pub inconclusive: Vec<String>,
    /// an earlier go of this session could not be settled (its search thread was still alive)
    pub tainted: bool,
}

#[derive(Clone, Debug)]
pub struct GoResult {
    pub args: String,
    pub plan_ms: u128,
    pub t_send: Instant,
    /// text after "bestmove " and the time it was read
    pub bestmove: Option<(String, Instant)>,
    pub n_bestmove_lines: usize,
    pub info_lines: Vec<String>,
    /// index into the transcript of the go's send event
    pub idx_send: usize,
    pub root: Option<Pos>,
}

impl GoResult {
    pub fn latency_ms(&self) -> Option<f64> {
        self.bestmove.as_ref().map(|(_, t)| t.duration_since(self.t_send).as_secs_f64() * 1000.0)
    }
}

/// Plan computed by the repository's own parser and time policy.
pub fn plan_for(go_line: &str, stm: Color) -> Result<u128, String> {
    let toks: Vec<&str> = go_line.split(' ').collect();
    par::catch(|| crate::uci::verif_parse_go_command(&toks).calculate_time_slice(engine_color(stm)))
}

/// The move on a `bestmove` line. UCI allows `bestmove <move> ponder <move>`; the properties speak
/// about "the move on it", so a well-formed ponder suffix is set aside (anything else after the
/// move stays in the text and makes it malformed).
pub fn bestmove_text(line: &str) -> String {
    let t = line.strip_prefix("bestmove").unwrap_or("").trim();
    let toks: Vec<&str> = t.split(' ').collect();
    let shaped = |m: &str| {
        let b = m.as_bytes();
        m == "0000" || m == "(none)" || ((b.len() == 4 || b.len() == 5) && (b'a'..=b'h').contains(&b[0]) && (b'1'..=b'8').contains(&b[1]) && (b'a'..=b'h').contains(&b[2]) && (b'1'..=b'8').contains(&b[3]) && (b.len() == 4 || b"qrbn".contains(&b[4])))
    };
    if toks.len() == 3 && toks[1] == "ponder" && shaped(toks[0]) && shaped(toks[2]) {
        toks[0].to_string()
    } else {
        t.to_string()
    }
}

/// `go infinite` and `go ponder` ask an engine that knows them to search until told to stop. The
/// engine under test treats both words as unknown tokens, so nothing depends on it there; an
/// engine that implements them must not be left waiting for ever by the harness. Every go line
/// that carries one of the words is therefore followed by `stop` (an unknown command to the
/// engine as it is).
pub fn wants_stop(go_line: &str) -> bool {
    go_line.split_whitespace().any(|t| t == "infinite" || t == "ponder")
}

impl Sess {
    pub fn start(bin: &Path, mut opts: SpawnOpts, with_log: bool) -> Result<Sess, String> {
        let mut log_path = None;
        if with_log {
            let dir = crate::bb::scratch_dir();
            let p = dir.join("events.log");
            opts.env.push(("WALLEYE_VERIF_LOG".into(), p.display().to_string()));
            log_path = Some(p);
        }
        let valgrind = opts.valgrind;
        let mut eng = Engine::spawn(bin, &opts)?;
        eng.send("uci");
        let to = if valgrind { Duration::from_secs(60) } else { WATCHDOG };
        if eng.wait_for(|l| l == "uciok", to).is_none() {
            return Err(format!("no uciok within {:?}; transcript: {:?}", to, eng.transcript_text(10)));
        }
        Ok(Sess { eng, cur: None, log_path, inconclusive: vec![], tainted: false })
    }

    pub fn position(&mut self, hist: &History) {
        self.eng.send(&hist.command());
        self.cur = Some(hist.end.clone());
    }

    pub fn position_fen(&mut self, p: &Pos) {
        self.eng.send(&format!("position fen {}", p.to_fen_game()));
        self.cur = Some(p.clone());
    }

    /// `isready` -> `readyok` within `timeout`.
    pub fn isready(&mut self, timeout: Duration) -> bool {
        self.eng.send("isready");
        self.eng.wait_for(|l| l == "readyok", timeout).is_some()
    }

    /// Send `go <args>` and collect everything up to the bestmove line (or the watchdog).
    pub fn go(&mut self, args: &str, extra_wait: Duration) -> GoResult {
        let line = if args.is_empty() { "go".to_string() } else { format!("go {}", args) };
        let stm = self.cur.as_ref().map(|p| p.stm).unwrap_or(Color::White);
        let plan_ms = plan_for(&line, stm).unwrap_or(0);
        let idx_send = self.eng.transcript.len();
        let t_send = self.eng.send(&line);
        if wants_stop(&line) {
            // at once, or a few milliseconds later
            if idx_send % 2 == 1 {
                std::thread::sleep(Duration::from_millis(1 + (idx_send % 5) as u64));
            }
            self.eng.send("stop");
        }
        // a plan far beyond anything the workloads intend (e.g. a saturated slice) is not waited for
        let wait_plan = if plan_ms > 10_000 { 0 } else { plan_ms };
        let budget = Duration::from_millis(wait_plan as u64) + extra_wait;
        let hit = self.eng.wait_for(|l| l.starts_with("bestmove"), budget);
        let bestmove = hit.map(|i| {
            let e = &self.eng.transcript[i];
            (bestmove_text(&e.line), e.t)
        });
        GoResult { args: line, plan_ms, t_send, bestmove, n_bestmove_lines: 0, info_lines: vec![], idx_send, root: self.cur.clone() }
    }

    /// After a go: drain briefly, use isready as the reply boundary, count bestmove lines and
    /// collect the info lines that belong to this go.
    pub fn settle(&mut self, g: &mut GoResult, boundary_timeout: Duration) -> bool {
        // The search thread is detached and may print a line (or send to a dropped channel) a
        // little after bestmove. Wait until it has exited (/proc task count back to 1) so that
        // everything it printed is attributed to this go, then use isready as the boundary: the
        // pipe is FIFO, so once readyok is read all of that thread's output has been read too.
        let t_end = Instant::now() + Duration::from_secs(6);
        while self.eng.thread_count() > 1 && Instant::now() < t_end {
            self.eng.drain(Duration::from_micros(300));
        }
        let mut unsettled = self.tainted;
        if self.eng.thread_count() > 1 {
            // a search thread that outlives its go by seconds (a machine loaded several times over,
            // a tracer that is starved - or a search that really does not stop): whatever it prints
            // from now on cannot be attributed to a go any more, so the info lines of this go and of
            // the following ones are not handed to the line checkers until a settle succeeds again
            self.inconclusive.push("search thread still alive 6 s after bestmove".into());
            unsettled = true;
            self.tainted = true;
        } else {
            self.tainted = false;
        }
        self.eng.drain(Duration::from_millis(1));
        let ok = self.isready(boundary_timeout);
        let mut n = 0;
        let mut infos = Vec::new();
        for e in &self.eng.transcript[g.idx_send..] {
            if e.dir == Dir::Out {
                if e.line.starts_with("bestmove") {
                    n += 1;
                } else if e.line.starts_with("info") {
                    infos.push(e.line.clone());
                }
            }
        }
        g.n_bestmove_lines = n;
        g.info_lines = if unsettled { Vec::new() } else { infos };
        ok
    }

    pub fn stderr_has_panic(&self) -> Option<String> {
        let t = self.eng.stderr_text();
        if t.contains("panicked") {
            Some(t)
        } else {
            None
        }
    }

    pub fn read_log(&self) -> Vec<LogRec> {
        match &self.log_path {
            Some(p) => std::fs::read_to_string(p).map(|t| parse_log(&t)).unwrap_or_default(),
            None => vec![],
        }
    }
}

impl Drop for Sess {
    fn drop(&mut self) {
        if let Some(p) = &self.log_path {
            if let Some(d) = p.parent() {
                let _ = std::fs::remove_dir_all(d);
            }
        }
    }
}

// ------------------------------------------------------------------------------------------------
// go parameter generation
// ------------------------------------------------------------------------------------------------

const CLOCK_VALUES: &[&str] = &["0", "-5", "-1000000000000000000", "1", "99", "100", "101", "150", "220", "400", "800", "3000",
    // the mover's own clock hopelessly negative: the smallest i128, its neighbours, and an integer below any machine range
    "-170141183460469231731687303715884105728", "-170141183460469231731687303715884105700", "-999999999999999999999999999999999999999999999",
    // between -2^128 and -2^127: beyond i128 but within u128 magnitude
    "-170141183460469231731687303715884105729", "-200000000000000000000000000000000000000", "-340282366920938463463374607431768211455"];
const HUGE: &[&str] = &["100000000", "9007199254740993", "1000000000000000000000000000000", "-1000000000000000000", "0",
    // integers that do not fit any machine integer are still clock values
    "1000000000000000000000000000000000000000000000", "-1000000000000000000000000000000000000000000000", "340282366920938463463374607431768211456"];

/// Random go arguments whose planned slice for `stm` is at most `max_plan` ms.
pub fn go_args(rng: &mut Rng, stm: Color, max_plan: u128) -> String {
    for _ in 0..200 {
        let mut parts: Vec<String> = Vec::new();
        let (mine_t, mine_i, their_t, their_i) = if stm == Color::White { ("wtime", "winc", "btime", "binc") } else { ("btime", "binc", "wtime", "winc") };
        let mut fields: Vec<(String, String)> = Vec::new();
        if rng.chance(5, 6) {
            fields.push((mine_t.into(), rng.pick(CLOCK_VALUES).to_string()));
        }
        if rng.chance(1, 2) {
            fields.push((mine_i.into(), rng.pick(&["0", "-5", "1", "50", "100", "150", "-170141183460469231731687303715884105728", "-999999999999999999999999999999999999999999999"]).to_string()));
        }
        if rng.chance(2, 3) {
            fields.push((their_t.into(), if rng.chance(1, 2) { rng.pick(HUGE).to_string() } else { rng.pick(CLOCK_VALUES).to_string() }));
        }
        if rng.chance(1, 3) {
            fields.push((their_i.into(), rng.pick(HUGE).to_string()));
        }
        if rng.chance(1, 2) {
            fields.push(("movestogo".into(), rng.pick(&["1", "2", "40", "40", "4294967295", "4294967296", "100000000000000000000", "0", "-3"]).to_string()));
        }
        // the acceptable slice is judged on the numbers WRITTEN (an upper bound from the statement:
        // 80% of (clock - 100) / moves to go, at most the clock when only the increment is usable,
        // nothing otherwise), not on what the code under test makes of them
        let num = |key: &str| -> Option<f64> { fields.iter().find(|(k, _)| k == key).and_then(|(_, v)| v.parse::<f64>().ok()) };
        let clock = num(mine_t).unwrap_or(0.0);
        let inc = num(mine_i).unwrap_or(0.0);
        let mtg = num("movestogo").filter(|m| *m >= 1.0).unwrap_or(30.0);
        let written_bound = if clock > 100.0 { 0.8 * (clock - 100.0) / mtg + 0.5 } else if inc > 0.0 { clock.max(0.0) } else { 0.0 };
        if written_bound > max_plan as f64 {
            continue;
        }
        rng.shuffle(&mut fields);
        for (k, v) in fields.clone() {
            if rng.chance(1, 8) {
                // words of the UCI `go` vocabulary the engine does not know (with their arguments)
                // and plain nonsense: all of it is to be ignored
                parts.push(rng.pick(&["infinite", "ponder", "foo", "searchmoves e2e4 e7e5", "searchmoves a1a1", "searchmoves h7h8q g1f3", "depth 3", "nodes 500", "mate 2", "movetime 40", "searchmoves"]).to_string());
            }
            parts.push(k);
            parts.push(v);
        }
        if rng.chance(1, 10) {
            // a long run of words the engine does not know (token counts around 2^8, 2^9 and
            // beyond): all of it is to be ignored, however many there are
            let n = *rng.pick(&[120usize, 250, 253, 254, 255, 256, 257, 258, 300, 511, 513, 1000]);
            let junk: Vec<&str> = (0..n).map(|_| *rng.pick(&["foo", "bar", "infinite", "ponder", "xyzzy", "-", "depth", "nodes"])).collect();
            let at_front = rng.chance(1, 2);
            if at_front { parts.insert(0, junk.join(" ")) } else { parts.push(junk.join(" ")) }
        }
        let args = parts.join(" ");
        let line = if args.is_empty() { "go".to_string() } else { format!("go {}", args) };
        // "movestogo 0" (or a negative count) tells the engine nothing usable; the slice that is
        // acceptable for the workload is judged on the line without it
        let line = line.replace(" movestogo 0", "").replace(" movestogo -3", "");
        let _ = line;
        return args;
    }
    String::new()
}

// ------------------------------------------------------------------------------------------------
// Event log of the hooked binary
// ------------------------------------------------------------------------------------------------

#[derive(Clone, Debug)]
pub struct LogRec {
    pub t_ns: u128,
    pub tag: u64,
    pub kind: String,
    pub detail: String,
}

pub fn parse_log(text: &str) -> Vec<LogRec> {
    let mut v = Vec::new();
    for line in text.lines() {
        let mut it = line.splitn(4, ' ');
        let t = it.next().and_then(|x| x.parse::<u128>().ok());
        let tag = it.next().and_then(|x| x.parse::<u64>().ok());
        let kind = it.next();
        let detail = it.next().unwrap_or("");
        if let (Some(t_ns), Some(tag), Some(kind)) = (t, tag, kind) {
            v.push(LogRec { t_ns, tag, kind: kind.to_string(), detail: detail.to_string() });
        }
    }
    v
}

pub fn kv<'a>(detail: &'a str, key: &str) -> Option<&'a str> {
    for tok in detail.split(' ') {
        if let Some(v) = tok.strip_prefix(key) {
            if let Some(v) = v.strip_prefix('=') {
                return Some(v);
            }
        }
    }
    None
}

fn raw_point(s: &str) -> Option<u8> {
    let (r, c) = s.split_once('.')?;
    sq_of(crate::board::Point(r.parse().ok()?, c.parse().ok()?))
}

/// Move of a `search_send` / `io_recv` record in oracle terms.
pub fn raw_move(detail: &str) -> Option<Mv> {
    let from = raw_point(kv(detail, "from")?)?;
    let to = raw_point(kv(detail, "to")?)?;
    let promo = match kv(detail, "promo")? {
        "-" => None,
        s => piece_from_letter(s.chars().next()?).map(|(_, k)| k),
    };
    Some(Mv { from, to, promo })
}

/// Position dumped by `go_start` / `position_loaded` (cells = 144 characters of the 12x12 array).
pub fn raw_board(detail: &str) -> Option<(Fields, u64)> {
    let cells = kv(detail, "cells")?;
    if cells.chars().count() != 144 {
        return None;
    }
    let mut sq = [None; 64];
    let mut ring_ok = true;
    for (i, ch) in cells.chars().enumerate() {
        let (r, c) = (i / 12, i % 12);
        let inside = (2..10).contains(&r) && (2..10).contains(&c);
        match ch {
            '#' => {
                if inside {
                    ring_ok = false;
                }
            }
            '.' => {
                if !inside {
                    ring_ok = false;
                }
            }
            ch => {
                if inside {
                    sq[sq_of(crate::board::Point(r, c)).unwrap() as usize] = piece_from_letter(ch);
                } else {
                    ring_ok = false;
                }
            }
        }
    }
    let stm = if kv(detail, "stm")? == "w" { Color::White } else { Color::Black };
    let rights = kv(detail, "rights")?;
    let castle = [rights.contains('K'), rights.contains('Q'), rights.contains('k'), rights.contains('q')];
    let ep = match kv(detail, "ep")? {
        "-" => Some(None),
        s => raw_point(s).map(Some),
    };
    let wk = raw_point(kv(detail, "wk")?);
    let bk = raw_point(kv(detail, "bk")?);
    let key = u64::from_str_radix(kv(detail, "key")?, 16).ok()?;
    Some((Fields { sq, stm, castle, ep, wk, bk, ring_ok }, key))
}

pub fn raw_table(detail: &str) -> Vec<(u64, u32)> {
    let mut v = Vec::new();
    if let Some(t) = kv(detail, "table") {
        for e in t.split(',') {
            if let Some((k, c)) = e.split_once(':') {
                if let (Ok(k), Ok(c)) = (u64::from_str_radix(k, 16), c.parse::<u32>()) {
                    if c != 0 {
                        v.push((k, c));
                    }
                }
            }
        }
    }
    v.sort_unstable();
    v
}

/// One `go` as seen in the event log.
#[derive(Debug, Default, Clone)]
pub struct GoLog {
    pub root: Option<Pos>,
    pub slice_ms: Option<u128>,
    pub sends: Vec<(u128, u64, Option<Mv>, bool)>, // t, seq, move, fallback
    pub recvs: Vec<(u128, u64, Option<Mv>)>,
    pub bestmoves: Vec<(u128, String)>,
    pub search_exit: Option<(u128, u64, bool)>, // t, sent, panicking
    pub loop_exit: Option<u128>,
    pub signature: String,
    pub problems: Vec<String>,
    pub search_panicked: bool,
}

/// Split the log into per-go records and run the ordering / exactly-once checks of DESIGN 12.2.
pub fn analyse_log(recs: &[LogRec]) -> Vec<GoLog> {
    let mut gos: Vec<GoLog> = Vec::new();
    // the search thread of go i is the thread whose search_start follows go_start i
    let mut tag_to_go: std::collections::HashMap<u64, usize> = std::collections::HashMap::new();
    let mut main_tag: Option<u64> = None;
    let mut sig_parts: Vec<Vec<String>> = Vec::new();
    for r in recs {
        match r.kind.as_str() {
            "go_start" => {
                main_tag = Some(r.tag);
                let mut g = GoLog::default();
                g.root = raw_board(&r.detail).map(|(f, _)| f.to_pos());
                g.slice_ms = kv(&r.detail, "slice_ms").and_then(|x| x.parse().ok());
                gos.push(g);
                sig_parts.push(Vec::new());
            }
            "search_start" => {
                if !gos.is_empty() {
                    tag_to_go.insert(r.tag, gos.len() - 1);
                }
            }
            "search_send" => {
                if let Some(&gi) = tag_to_go.get(&r.tag) {
                    let seq = kv(&r.detail, "seq").and_then(|x| x.parse().ok()).unwrap_or(0);
                    gos[gi].sends.push((r.t_ns, seq, raw_move(&r.detail), kv(&r.detail, "fb") == Some("1")));
                    sig_parts[gi].push(format!("S{}", seq));
                }
            }
            "search_exit" => {
                if let Some(&gi) = tag_to_go.get(&r.tag) {
                    gos[gi].search_exit = Some((r.t_ns, kv(&r.detail, "sent").and_then(|x| x.parse().ok()).unwrap_or(0), kv(&r.detail, "panicking") == Some("1")));
                    sig_parts[gi].push("X".into());
                }
            }
            "io_recv" => {
                if let Some(g) = gos.last_mut() {
                    let seq = kv(&r.detail, "seq").and_then(|x| x.parse().ok()).unwrap_or(0);
                    g.recvs.push((r.t_ns, seq, raw_move(&r.detail)));
                    sig_parts.last_mut().unwrap().push(format!("R{}", seq));
                }
            }
            "io_loop_exit" => {
                if let Some(g) = gos.last_mut() {
                    g.loop_exit = Some(r.t_ns);
                    sig_parts.last_mut().unwrap().push("D".into());
                }
            }
            "out" => {
                if r.detail.starts_with("bestmove") && Some(r.tag) == main_tag {
                    if let Some(g) = gos.last_mut() {
                        g.bestmoves.push((r.t_ns, bestmove_text(&r.detail)));
                        sig_parts.last_mut().unwrap().push("B".into());
                    }
                }
            }
            _ => {}
        }
    }
    for (gi, g) in gos.iter_mut().enumerate() {
        // compress long send/recv runs in the signature: keep order pattern, cap length
        let parts = &sig_parts[gi];
        g.signature = if parts.len() > 40 { format!("{} ..({})", parts[..40].join(" "), parts.len()) } else { parts.join(" ") };
        // 1. exactly one bestmove
        if g.bestmoves.len() != 1 {
            g.problems.push(format!("{} bestmove lines for one go", g.bestmoves.len()));
        }
        // 2. consumer side FIFO / exactly-once
        for (i, (_, seq, _)) in g.recvs.iter().enumerate() {
            if *seq != i as u64 + 1 {
                g.problems.push(format!("io_recv sequence broken at position {} (seq {})", i + 1, seq));
                break;
            }
        }
        if g.recvs.len() > g.sends.len() {
            g.problems.push(format!("{} receives for {} sends", g.recvs.len(), g.sends.len()));
        }
        // 3. each receive follows the matching send and carries the same move
        for (t, seq, mv) in &g.recvs {
            match g.sends.iter().find(|s| s.1 == *seq) {
                Some((ts, _, smv, _)) => {
                    if ts > t {
                        g.problems.push(format!("io_recv {} logged before search_send {}", seq, seq));
                    }
                    if smv != mv {
                        g.problems.push(format!("io_recv {} carries {:?} but search_send {} carried {:?}", seq, mv.map(|m| m.to_string()), seq, smv.map(|m| m.to_string())));
                    }
                }
                None => g.problems.push(format!("io_recv {} without a matching search_send", seq)),
            }
        }
        // 4. printed move = last received move, rendered by the oracle's printer
        if let (Some((_, text)), Some((_, _, Some(mv)))) = (g.bestmoves.first(), g.recvs.last()) {
            if *text != mv.to_string() {
                g.problems.push(format!("bestmove '{}' but the last board received carries {}", text, mv));
            }
        }
        if !g.bestmoves.is_empty() && g.recvs.is_empty() {
            if let Some(root) = &g.root {
                if has_legal_move(root) {
                    g.problems.push("bestmove printed without any received board".into());
                }
            }
        }
        // 5. every send is a legal move of the root
        if let Some(root) = &g.root {
            let legal = legal_moves(root);
            for (_, seq, mv, _) in &g.sends {
                match mv {
                    Some(m) if legal.contains(m) => {}
                    Some(m) => g.problems.push(format!("search_send {} is {} which is not legal in {}", seq, m, root.to_fen())),
                    None => g.problems.push(format!("search_send {} carries no usable move", seq)),
                }
            }
        }
        if let Some((_, _, true)) = g.search_exit {
            g.search_panicked = true;
        }
    }
    gos
}
