//! SplitMix64: tiny, seedable, good enough for workload generation.
#[derive(Clone)]
pub struct Rng(pub u64);

impl Rng {
    pub fn new(seed: u64) -> Rng {
        Rng(seed ^ 0x5DEECE66D_u64.wrapping_mul(0x9E3779B97F4A7C15))
    }
    /// independent stream for (seed, worker/job index)
    pub fn stream(seed: u64, idx: u64) -> Rng {
        let mut r = Rng::new(seed.wrapping_mul(0xD1342543DE82EF95).wrapping_add(idx.wrapping_mul(0x9E3779B97F4A7C15)));
        r.next();
        r
    }
    pub fn next(&mut self) -> u64 {
        self.0 = self.0.wrapping_add(0x9E3779B97F4A7C15);
        let mut z = self.0;
        z = (z ^ (z >> 30)).wrapping_mul(0xBF58476D1CE4E5B9);
        z = (z ^ (z >> 27)).wrapping_mul(0x94D049BB133111EB);
        z ^ (z >> 31)
    }
    pub fn below(&mut self, n: u64) -> u64 {
        if n == 0 {
            0
        } else {
            self.next() % n
        }
    }
    pub fn range(&mut self, lo: i64, hi: i64) -> i64 {
        lo + self.below((hi - lo + 1) as u64) as i64
    }
    pub fn chance(&mut self, num: u64, den: u64) -> bool {
        self.below(den) < num
    }
    pub fn pick<'a, T>(&mut self, v: &'a [T]) -> &'a T {
        &v[self.below(v.len() as u64) as usize]
    }
    pub fn shuffle<T>(&mut self, v: &mut [T]) {
        for i in (1..v.len()).rev() {
            let j = self.below(i as u64 + 1) as usize;
            v.swap(i, j);
        }
    }
}

pub fn hash64(s: &str) -> u64 {
    // FNV-1a
    let mut h: u64 = 0xcbf29ce484222325;
    for b in s.as_bytes() {
        h ^= *b as u64;
        h = h.wrapping_mul(0x100000001b3);
    }
    h
}
