//! Conversions between Walleye's `BoardState` and the oracle's `Pos`. Only public fields and
//! public getters of the engine are used.

use crate::board::{BoardState, Piece, PieceColor, PieceKind, Point, Square};
use crate::move_generation::CastlingType;
use crate::oracle::{self, Color, Kind, Mv, Pc, Pos};
use crate::zobrist::ZobristHasher;

pub fn color_of(c: PieceColor) -> Color {
    match c {
        PieceColor::White => Color::White,
        PieceColor::Black => Color::Black,
    }
}
pub fn engine_color(c: Color) -> PieceColor {
    match c {
        Color::White => PieceColor::White,
        Color::Black => PieceColor::Black,
    }
}
pub fn kind_of(k: PieceKind) -> Kind {
    match k {
        PieceKind::Pawn => Kind::Pawn,
        PieceKind::Knight => Kind::Knight,
        PieceKind::Bishop => Kind::Bishop,
        PieceKind::Rook => Kind::Rook,
        PieceKind::Queen => Kind::Queen,
        PieceKind::King => Kind::King,
    }
}
pub fn engine_kind(k: Kind) -> PieceKind {
    match k {
        Kind::Pawn => PieceKind::Pawn,
        Kind::Knight => PieceKind::Knight,
        Kind::Bishop => PieceKind::Bishop,
        Kind::Rook => PieceKind::Rook,
        Kind::Queen => PieceKind::Queen,
        Kind::King => PieceKind::King,
    }
}

/// engine (row, col) of an oracle square: row 2 = rank 8 ... row 9 = rank 1; col 2 = file a.
pub fn pt(s: u8) -> Point {
    Point(9 - (s / 8) as usize, 2 + (s % 8) as usize)
}

pub fn sq_of(p: Point) -> Option<u8> {
    if (2..10).contains(&p.0) && (2..10).contains(&p.1) {
        Some(((9 - p.0) * 8 + (p.1 - 2)) as u8)
    } else {
        None
    }
}

/// Everything that describes the position an engine board claims to hold.
#[derive(Clone, PartialEq, Eq, Debug)]
pub struct Fields {
    pub sq: [Pc; 64],
    pub stm: Color,
    pub castle: [bool; 4],
    pub ep: Option<Option<u8>>, // Some(None) = no target, Some(Some(s)) = target, None = off-board point
    pub wk: Option<u8>,
    pub bk: Option<u8>,
    pub ring_ok: bool,
}

pub fn fields_of(b: &BoardState) -> Fields {
    let mut sq = [None; 64];
    let mut ring_ok = true;
    for r in 0..12 {
        for c in 0..12 {
            let inside = (2..10).contains(&r) && (2..10).contains(&c);
            match b.board[r][c] {
                Square::Boundary => {
                    if inside {
                        ring_ok = false;
                    }
                }
                Square::Empty => {
                    if !inside {
                        ring_ok = false;
                    }
                }
                Square::Full(p) => {
                    if inside {
                        sq[sq_of(Point(r, c)).unwrap() as usize] = Some((color_of(p.color), kind_of(p.kind)));
                    } else {
                        ring_ok = false;
                    }
                }
            }
        }
    }
    Fields {
        sq,
        stm: color_of(b.to_move),
        castle: [b.white_king_side_castle, b.white_queen_side_castle, b.black_king_side_castle, b.black_queen_side_castle],
        ep: match b.pawn_double_move {
            None => Some(None),
            Some(p) => sq_of(p).map(Some),
        },
        wk: sq_of(b.white_king_location),
        bk: sq_of(b.black_king_location),
        ring_ok,
    }
}

pub fn fields_of_pos(p: &Pos) -> Fields {
    Fields {
        sq: p.sq,
        stm: p.stm,
        castle: p.castle,
        ep: Some(p.ep),
        wk: p.king_sq(Color::White),
        bk: p.king_sq(Color::Black),
        ring_ok: true,
    }
}

impl Fields {
    pub fn to_pos(&self) -> Pos {
        Pos { sq: self.sq, stm: self.stm, castle: self.castle, ep: self.ep.unwrap_or(None) }
    }

    /// Human readable difference (first few differing components).
    pub fn diff(&self, want: &Fields) -> String {
        let mut d = Vec::new();
        if self.sq != want.sq {
            d.push(format!("placement {} want {}", self.to_pos().placement_fen(), want.to_pos().placement_fen()));
        }
        if self.stm != want.stm {
            d.push(format!("stm {:?} want {:?}", self.stm, want.stm));
        }
        if self.castle != want.castle {
            d.push(format!("rights {:?} want {:?}", self.castle, want.castle));
        }
        if self.ep != want.ep {
            d.push(format!("ep {:?} want {:?}", self.ep.map(|e| e.map(oracle::sq_name)), want.ep.map(|e| e.map(oracle::sq_name))));
        }
        if self.wk != want.wk {
            d.push(format!("white king cache {:?} want {:?}", self.wk.map(oracle::sq_name), want.wk.map(oracle::sq_name)));
        }
        if self.bk != want.bk {
            d.push(format!("black king cache {:?} want {:?}", self.bk.map(oracle::sq_name), want.bk.map(oracle::sq_name)));
        }
        if self.ring_ok != want.ring_ok {
            d.push("boundary ring damaged".to_string());
        }
        d.join("; ")
    }
}

/// Load an oracle position into the engine through its own FEN loader.
pub fn engine_from_pos(p: &Pos) -> Result<BoardState, String> {
    load_fen(&p.to_fen6(0, 1))
}

/// `BoardState::from_fen` with an owned error.
pub fn load_fen(fen: &str) -> Result<BoardState, String> {
    BoardState::from_fen(fen).map_err(|e| format!("from_fen({}) -> Err({})", fen, e))
}

/// The move descriptor a successor carries, in oracle terms. `Err` describes a malformed one.
pub fn mv_of(b: &BoardState) -> Result<Mv, String> {
    let (f, t) = b.last_move.ok_or("successor without last_move")?;
    let from = sq_of(f).ok_or(format!("last_move.from off board {:?}", f))?;
    let to = sq_of(t).ok_or(format!("last_move.to off board {:?}", t))?;
    Ok(Mv { from, to, promo: b.pawn_promotion.map(|p| kind_of(p.kind)) })
}

/// Key computed from scratch out of the fields, using only the hasher's public getters.
pub fn zobrist_from_scratch(f: &Fields, h: &ZobristHasher) -> u64 {
    let mut k = 0u64;
    for s in 0..64u8 {
        if let Some((c, kd)) = f.sq[s as usize] {
            k ^= h.get_val_for_piece(Piece { color: engine_color(c), kind: engine_kind(kd) }, pt(s));
        }
    }
    if f.stm == Color::Black {
        k ^= h.get_black_to_move_val();
    }
    if f.castle[0] {
        k ^= h.get_val_for_castling(CastlingType::WhiteKingSide);
    }
    if f.castle[1] {
        k ^= h.get_val_for_castling(CastlingType::WhiteQueenSide);
    }
    if f.castle[2] {
        k ^= h.get_val_for_castling(CastlingType::BlackKingSide);
    }
    if f.castle[3] {
        k ^= h.get_val_for_castling(CastlingType::BlackQueenSide);
    }
    if let Some(Some(t)) = f.ep {
        k ^= h.get_val_for_en_passant(pt(t).1);
    }
    k
}

pub fn key_of_pos(p: &Pos, h: &ZobristHasher) -> u64 {
    zobrist_from_scratch(&fields_of_pos(p), h)
}
