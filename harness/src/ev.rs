//! Verdicts, evidence files, replay files, known findings.
use serde_json::{json, Map, Value};
use std::collections::{BTreeMap, HashSet};
use std::time::Instant;

#[derive(Clone, Copy, PartialEq, Eq, Debug)]
pub enum Tier {
    Quick,
    Thorough,
}

impl Tier {
    pub fn name(self) -> &'static str {
        match self {
            Tier::Quick => "quick",
            Tier::Thorough => "thorough",
        }
    }
    pub fn pick<T>(self, q: T, t: T) -> T {
        match self {
            Tier::Quick => q,
            Tier::Thorough => t,
        }
    }
}

#[derive(Clone, Debug)]
pub struct Violation {
    /// narrowest identification of the failure; matched exactly against known findings
    pub signature: String,
    pub what: String,
    /// everything needed to re-run the case: {"kind": ..., inputs...}
    pub case: Value,
}

/// Mergeable per-worker accumulator.
#[derive(Default)]
pub struct Acc {
    pub evaluations: u64,
    pub distinct: HashSet<u64>,
    pub features: BTreeMap<String, u64>,
    pub counters: BTreeMap<String, u64>,
    pub samples: Vec<Value>,
    pub violations: Vec<Violation>,
    pub inconclusive: Vec<String>,
}

impl Acc {
    pub fn new() -> Acc {
        Acc::default()
    }
    pub fn feature(&mut self, name: &str) {
        *self.features.entry(name.to_string()).or_insert(0) += 1;
    }
    pub fn count(&mut self, name: &str, n: u64) {
        *self.counters.entry(name.to_string()).or_insert(0) += n;
    }
    pub fn max(&mut self, name: &str, n: u64) {
        let e = self.counters.entry(name.to_string()).or_insert(0);
        if n > *e {
            *e = n;
        }
    }
    pub fn sample(&mut self, v: Value) {
        if self.samples.len() < 4 {
            self.samples.push(v);
        }
    }
    pub fn violation(&mut self, signature: String, what: String, case: Value) {
        if self.violations.len() < 200 {
            self.violations.push(Violation { signature, what, case });
        } else {
            self.count("violations_beyond_cap", 1);
        }
    }
    pub fn merge(&mut self, o: Acc, max_keys: &[&str]) {
        self.evaluations += o.evaluations;
        self.distinct.extend(o.distinct);
        for (k, v) in o.features {
            *self.features.entry(k).or_insert(0) += v;
        }
        for (k, v) in o.counters {
            if max_keys.contains(&k.as_str()) {
                let e = self.counters.entry(k).or_insert(0);
                if v > *e {
                    *e = v;
                }
            } else {
                *self.counters.entry(k).or_insert(0) += v;
            }
        }
        for s in o.samples {
            if self.samples.len() < 8 {
                self.samples.push(s);
            }
        }
        self.violations.extend(o.violations);
        self.inconclusive.extend(o.inconclusive);
    }
}

pub struct KnownEntry {
    pub property: String,
    pub signature: String,
    pub what: String,
}

/// Root of the verification tree (normally /verif; a `vp run` snapshot sets VERIF_ROOT).
pub fn root() -> String {
    std::env::var("VERIF_ROOT").unwrap_or_else(|_| "/verif".to_string())
}

pub fn known_file() -> String {
    format!("{}/known_findings.txt", root())
}

/// Lines: `known: property=<id> sig=<<signature>> <what fails>`   (suppresses exactly that signature)
///        `fixed: property=<id> <commit> <what failed>`            (suppresses nothing)
pub fn load_known() -> Vec<KnownEntry> {
    let mut out = Vec::new();
    if let Ok(text) = std::fs::read_to_string(known_file()) {
        for line in text.lines() {
            if let Some(rest) = line.strip_prefix("known: property=") {
                if let Some((prop, rest)) = rest.split_once(' ') {
                    if let Some(rest) = rest.strip_prefix("sig=<<") {
                        if let Some((sig, what)) = rest.split_once(">>") {
                            out.push(KnownEntry { property: prop.to_string(), signature: sig.to_string(), what: what.trim().to_string() });
                        }
                    }
                }
            }
        }
    }
    out
}

pub struct Run {
    pub prop: String,
    pub tier: Tier,
    pub seed: u64,
    pub level: &'static str,
    pub rule: String,
    pub assumptions: Vec<String>,
    pub extra: Map<String, Value>,
    pub acc: Acc,
    pub exhaustive: bool,
    /// minimum number of distinct non-trivial cases below which the run is inconclusive
    pub floor_distinct: u64,
    start: Instant,
}

impl Run {
    pub fn new(prop: &str, tier: Tier, seed: u64, level: &'static str) -> Run {
        Run {
            prop: prop.to_string(),
            tier,
            seed,
            level,
            rule: String::new(),
            assumptions: vec![],
            extra: Map::new(),
            acc: Acc::new(),
            exhaustive: false,
            floor_distinct: 2,
            start: Instant::now(),
        }
    }

    pub fn elapsed(&self) -> f64 {
        self.start.elapsed().as_secs_f64()
    }

    pub fn set(&mut self, k: &str, v: Value) {
        self.extra.insert(k.to_string(), v);
    }

    /// Shadow run (VERIF_SHADOW=1, shipped-semantics build): hand the observations to the parent
    /// on standard output instead of writing evidence.
    fn finish_shadow(self) -> i32 {
        for v in self.acc.violations.iter().take(60) {
            println!("SHADOW-VIOLATION {}", json!({"signature": v.signature, "what": v.what, "case": v.case}));
        }
        println!("SHADOW-STATS {}", json!({"evaluations": self.acc.evaluations, "distinct": self.acc.distinct.len(), "violations": self.acc.violations.len()}));
        0
    }

    /// The in-process monitors once more on the build with the shipped program's semantics.
    fn shadow(&mut self) {
        const SHADOWED: &[&str] = &["C01", "C02", "C04", "C05", "C06", "C07", "C09", "C10", "C11", "C12", "C13", "C14", "C15", "C18"];
        if !SHADOWED.contains(&self.prop.as_str()) {
            return;
        }
        let bin = match std::env::var("VERIF_SHIPPED_WMON") {
            Ok(b) if std::path::Path::new(&b).exists() => b,
            _ => {
                self.set("shadow_run_shipped_profile", json!("not available (second build missing)"));
                return;
            }
        };
        let t0 = Instant::now();
        // a watchdog around the shadow process: without overflow checks a counter can wrap where the
        // sanitizer profile panics, and a loop that relied on the panic never ends
        let limit = std::time::Duration::from_secs_f64((self.elapsed() * 4.0).max(150.0));
        let dir = format!("{}/.work", root());
        let _ = std::fs::create_dir_all(&dir);
        let out_path = format!("{}/shadow-{}-{}.out", dir, self.prop, std::process::id());
        let err_path = format!("{}/shadow-{}-{}.err", dir, self.prop, std::process::id());
        let spawn = (|| -> std::io::Result<std::process::Child> {
            std::process::Command::new(&bin)
                .args(["check", &self.prop, "quick"])
                .env("VERIF_SHADOW", "1")
                .env("VERIF_SEED", self.seed.to_string())
                .stdout(std::fs::File::create(&out_path)?)
                .stderr(std::fs::File::create(&err_path)?)
                .spawn()
        })();
        let mut child = match spawn {
            Ok(c) => c,
            Err(e) => {
                self.set("shadow_run_shipped_profile", json!(format!("could not run: {}", e)));
                return;
            }
        };
        let mut timed_out = false;
        let status = loop {
            match child.try_wait() {
                Ok(Some(st)) => break st.code(),
                Ok(None) => {
                    if t0.elapsed() > limit {
                        timed_out = true;
                        let _ = child.kill();
                        let _ = child.wait();
                        break None;
                    }
                    std::thread::sleep(std::time::Duration::from_millis(50));
                }
                Err(_) => break None,
            }
        };
        let text = std::fs::read_to_string(&out_path).unwrap_or_default();
        let err_text = std::fs::read_to_string(&err_path).unwrap_or_default();
        let _ = std::fs::remove_file(&out_path);
        let _ = std::fs::remove_file(&err_path);
        if timed_out {
            self.acc.inconclusive.push(format!("shadow run on the shipped-profile build did not end within {:.0} s (the run on the sanitizer-profile build took {:.0} s) and was stopped: without overflow checks something loops there", limit.as_secs_f64(), self.elapsed() - t0.elapsed().as_secs_f64()));
        }
        let mut stats = Value::Null;
        let mut n = 0;
        for l in text.lines() {
            if let Some(j) = l.strip_prefix("SHADOW-VIOLATION ") {
                if let Ok(v) = serde_json::from_str::<Value>(j) {
                    let sig = v["signature"].as_str().unwrap_or("?").to_string();
                    let what = format!("[build with the shipped profile: no debug assertions, wrapping arithmetic] {}", v["what"].as_str().unwrap_or(""));
                    let mut case = v["case"].clone();
                    if let Some(o) = case.as_object_mut() {
                        o.insert("profile".into(), json!("shipped"));
                    }
                    self.acc.violation(sig, what, case);
                    n += 1;
                }
            } else if let Some(j) = l.strip_prefix("SHADOW-STATS ") {
                stats = serde_json::from_str(j).unwrap_or(Value::Null);
            }
        }
        if stats.is_null() && !timed_out {
            // the shadow process died (a panic outside catch_unwind, an abort): that is an observation too
            self.acc.inconclusive.push(format!("shadow run on the shipped-profile build ended without a summary (status {:?}): {}", status, err_text.lines().rev().take(3).collect::<Vec<_>>().join(" | ")));
        }
        self.set("shadow_run_shipped_profile", json!({"what": "the in-process part of this check once more (quick volume) on a build of the harness without debug assertions and with wrapping arithmetic - the semantics of the shipped binary", "summary": stats, "violations_taken_over": n, "seconds": t0.elapsed().as_secs_f64()}));
    }

    /// Write evidence + replays, print verdict lines, return the exit code.
    pub fn finish(mut self) -> i32 {
        if std::env::var("VERIF_SHADOW").map(|v| v == "1").unwrap_or(false) {
            return self.finish_shadow();
        }
        self.shadow();
        let known = load_known();
        let mut new_viol: Vec<Violation> = Vec::new();
        let mut known_hit: BTreeMap<String, (String, u64)> = BTreeMap::new();
        let mut seen_sig: HashSet<String> = HashSet::new();
        let total_viol = self.acc.violations.len();
        let mut classes: BTreeMap<String, u64> = BTreeMap::new();
        for v in &self.acc.violations {
            let cls: Vec<&str> = v.signature.split('|').take(2).collect();
            *classes.entry(cls.join("|")).or_insert(0) += 1;
        }
        for v in std::mem::take(&mut self.acc.violations) {
            if let Some(k) = known.iter().find(|k| k.property == self.prop && k.signature == v.signature) {
                let e = known_hit.entry(k.signature.clone()).or_insert((k.what.clone(), 0));
                e.1 += 1;
            } else if seen_sig.insert(v.signature.clone()) {
                new_viol.push(v);
            }
        }
        // replay files should cover as many distinct violation classes as possible
        {
            let mut seen_cls: HashSet<String> = HashSet::new();
            let mut firsts = Vec::new();
            let mut rest = Vec::new();
            for v in new_viol.drain(..) {
                let cls: String = v.signature.split('|').take(2).collect::<Vec<_>>().join("|");
                if seen_cls.insert(cls) {
                    firsts.push(v);
                } else {
                    rest.push(v);
                }
            }
            firsts.extend(rest);
            new_viol = firsts;
        }
        let _ = std::fs::create_dir_all(format!("{}/evidence", root()));
        let _ = std::fs::create_dir_all(format!("{}/replays", root()));
        let mut replay_paths = Vec::new();
        for (i, v) in new_viol.iter().enumerate().take(10) {
            let path = format!("{}/replays/{}-{}-{}-{}.json", root(), self.prop, self.tier.name(), self.seed, i);
            let body = json!({"property": self.prop, "seed": self.seed, "tier": self.tier.name(),
                              "signature": v.signature, "what": v.what, "case": v.case});
            let _ = std::fs::write(&path, serde_json::to_string_pretty(&body).unwrap());
            replay_paths.push(path);
        }
        let mut coverage = Map::new();
        coverage.insert("evaluations".into(), json!(self.acc.evaluations));
        coverage.insert("distinct_nontrivial".into(), json!(self.acc.distinct.len()));
        coverage.insert("rule".into(), json!(self.rule));
        coverage.insert("samples".into(), Value::Array(self.acc.samples.clone()));
        if self.exhaustive {
            coverage.insert("exhaustive".into(), json!(true));
        }
        coverage.insert("features".into(), json!(self.acc.features));
        coverage.insert("counters".into(), json!(self.acc.counters));
        for (k, v) in self.extra.iter() {
            coverage.insert(k.clone(), v.clone());
        }
        if !known_hit.is_empty() {
            coverage.insert("known_findings_observed".into(), json!(known_hit.iter().map(|(s, (w, n))| json!({"signature": s, "what": w, "times": n})).collect::<Vec<_>>()));
        }
        if !classes.is_empty() {
            coverage.insert("violation_classes".into(), json!(classes));
            println!("violation classes (raw): {:?}", classes);
        }
        if !new_viol.is_empty() {
            coverage.insert("violation_summaries".into(), json!(new_viol.iter().take(20).map(|v| json!({"signature": v.signature, "what": v.what})).collect::<Vec<_>>()));
        }
        let mut inconclusive = self.acc.inconclusive.clone();
        if (self.acc.distinct.len() as u64) < self.floor_distinct {
            inconclusive.push(format!("only {} distinct non-trivial cases observed (floor {})", self.acc.distinct.len(), self.floor_distinct));
        }
        if self.acc.evaluations == 0 {
            inconclusive.push("no evaluations".into());
        }
        if !inconclusive.is_empty() {
            coverage.insert("inconclusive".into(), json!(inconclusive));
        }
        let evidence = json!({
            "property_id": self.prop,
            "tier": self.tier.name(),
            "seed": self.seed,
            "level": self.level,
            "coverage": Value::Object(coverage),
            "assumptions": self.assumptions,
            "wall_s": (self.elapsed() * 1000.0).round() / 1000.0,
            "violations": new_viol.len(),
        });
        let path = format!("{}/evidence/{}.json", root(), self.prop);
        if let Err(e) = std::fs::write(&path, serde_json::to_string_pretty(&evidence).unwrap()) {
            println!("INCONCLUSIVE cannot write evidence {}: {}", path, e);
            return 2;
        }
        for (sig, (what, n)) in &known_hit {
            println!("KNOWN-FINDING: property={} {} [sig {}; seen {}x]", self.prop, what, sig, n);
        }
        println!(
            "{} {} seed={} evaluations={} distinct_nontrivial={} violations={} (raw {}) wall={:.1}s",
            self.prop,
            self.tier.name(),
            self.seed,
            self.acc.evaluations,
            self.acc.distinct.len(),
            new_viol.len(),
            total_viol,
            self.elapsed()
        );
        if !new_viol.is_empty() {
            for (i, v) in new_viol.iter().enumerate() {
                if i < replay_paths.len() {
                    println!("  violation: {}", v.what);
                    println!("VIOLATION property={} replay={}", self.prop, replay_paths[i]);
                }
            }
            return 1;
        }
        if !inconclusive.is_empty() {
            for m in &inconclusive {
                println!("INCONCLUSIVE {}", m);
            }
            return 2;
        }
        0
    }
}
