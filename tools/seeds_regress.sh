#!/bin/bash
# tools/seeds_regress.sh [tier] [lane] [lanes]  - for every stored seeded change (or every <lanes>-th one, offset <lane>): apply it to the repository
# (WALLEYE_REPO, default /repo), run the check of its own property, expect exit 1 with a VIOLATION
# line, revert. Prints one line per seed. (In a `vp run --with-repo` snapshot: WALLEYE_REPO=$VP_RUN_REPO.)
tier=${1:-quick}; lane=${2:-0}; lanes=${3:-1}; idx=0
cd "$(dirname "$0")/.." || exit 2
R=${WALLEYE_REPO:-/repo}
mkdir -p .work
git -C $R status --short | grep -q . && { echo "$R not clean"; exit 2; }
miss=0
for d in seeded/*/; do
  name=$(basename $d)
  idx=$((idx+1)); [ $((idx % lanes)) -eq $lane ] || continue
  prop=$(python3 -c "import json;print(json.load(open('$d/meta.json'))['property'])")
  if ! git -C $R apply $PWD/$d/patch.diff 2>/dev/null; then echo "$name: PATCH DOES NOT APPLY"; miss=$((miss+1)); continue; fi
  ./bin/check $prop $tier > .work/regress-$name.log 2>&1; rc=$?
  git -C $R checkout -- .
  v=$(grep -c '^VIOLATION' .work/regress-$name.log)
  if [ $rc -eq 1 ] && [ $v -gt 0 ]; then echo "$name: caught by $prop $tier ($(grep -m1 'violation classes' .work/regress-$name.log | cut -c1-120))"; else echo "$name: MISSED by $prop $tier (exit $rc)"; miss=$((miss+1)); fi
done
git -C $R status --short
echo "missed: $miss"
exit $miss
