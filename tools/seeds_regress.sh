#!/bin/bash
# tools/seeds_regress.sh [tier]  - for every stored seeded change: apply it to /repo, run the quick
# check of its own property, expect exit 1 with a VIOLATION line, revert. Prints one line per seed.
tier=${1:-quick}
cd /verif
git -C /repo status --short | grep -q . && { echo "/repo not clean"; exit 2; }
miss=0
for d in seeded/*/; do
  name=$(basename $d)
  prop=$(python3 -c "import json;print(json.load(open('$d/meta.json'))['property'])")
  if ! git -C /repo apply $PWD/$d/patch.diff 2>/dev/null; then echo "$name: PATCH DOES NOT APPLY"; miss=$((miss+1)); continue; fi
  ./bin/check $prop $tier > .work/regress-$name.log 2>&1; rc=$?
  git -C /repo checkout -- .
  v=$(grep -c '^VIOLATION' .work/regress-$name.log)
  if [ $rc -eq 1 ] && [ $v -gt 0 ]; then echo "$name: caught by $prop $tier ($(grep -m1 'violation classes' .work/regress-$name.log | cut -c1-120))"; else echo "$name: MISSED by $prop $tier (exit $rc)"; miss=$((miss+1)); fi
done
git -C /repo status --short
echo "missed: $miss"
exit $miss
