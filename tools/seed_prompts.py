#!/usr/bin/env python3
"""tools/seed_prompts.py <round-suffix> <outdir>  - write one prompt per property for a fresh
round of independent seeded-change authors. A prompt contains the property text, the list of
changes earlier authors already proposed (their own one-line summaries) and a hint where to look;
nothing about how /verif checks anything."""
import json, os, sys, glob
suffix, out = sys.argv[1], sys.argv[2]
props = {}
for line in open(os.path.join(os.path.dirname(__file__), "..", "properties.jsonl")):
    p = json.loads(line)
    props[p["id"]] = p
prior = []
for m in sorted(glob.glob(os.path.join(os.path.dirname(__file__), "..", "seeded", "*", "meta.json"))):
    d = json.load(open(m))
    if d.get("summary"):
        prior.append("- (%s) %s" % (d["property"], d["summary"][:240]))
HINTS = {
 "C01": "Look at sliders/knights near the board edge (sentinel squares of the 12x12 board), pinned pieces, double check, pawn single/double steps that are blocked, or king steps next to enemy pawns - not castling rights, promotion or en passant, which earlier rounds covered.",
 "C02": "Look at what a successor carries besides the placement: king_location after castling or a king capture, the last_move descriptor of castling and en passant, the en-passant target set by a double step (only when? which square?), rights after a king move.",
 "C03": "Look at how the answer is composed and sent: the channel between the search thread and the I/O thread, which board is printed when several arrive, formatting of castling/en-passant moves, repeated `go` without a new position.",
 "C04": "Look at the text applier's castling (rook relocation, rights), its double-step en-passant target, promotion with capture, the hash updates it makes, FEN start positions with Black to move.",
 "C05": "Look at the key updates of castling (rook hop, both rights lost at once), promotion captures, double steps (ep file in/out), king moves, and the side-to-move term.",
 "C06": "Look at slider rays (where they stop, which pieces count as diagonal/straight attackers), knight offsets, and the colour parameter (the side that has just moved).",
 "C07": "Look at state that must be restored or ignored on the abort path: PV table, killer table, node counters feeding info lines, draw table in quiescence/check extension, the null-move board.",
 "C08": "Look at the I/O thread's polling loop and the search thread's exit conditions (early exit on mate found, MAX_DEPTH reached, single legal move), sleeps, and what happens when the search finishes long before the deadline.",
 "C09": "Look at parse_go_command and GameTime (token order, winc/binc/movestogo, defaults, the safety margin, rounding/casts to u128).",
 "C10": "Look at play_out_position / the position handler (when the start position and each later position is inserted, clear), and at how the search adds/removes positions around recursion, check extension and null move.",
 "C11": "Look at mate-distance pruning bounds, the value returned when no legal move exists (check vs stalemate, ply offset), the check extension, and the conversion of scores to `mate N`.",
 "C12": "Look at killer-move storage/ordering, PV-table copying, the alpha/beta window handed to children, the zero-window re-search condition, or the root's handling of equal values.",
 "C13": "Look at which moves count as captures in capture-only mode (king captures, sliders, pawn diagonal moves onto empty squares, capture-promotions to all four pieces) and the order-heuristic bookkeeping that may drop moves.",
 "C14": "Look at piece-square table indexing for Black vs White, the game-phase/taper weights, king tables, and any asymmetry between the white and black accumulation loops.",
 "C15": "Look at the castling field, side-to-move field, number of ranks/fields, king bookkeeping (king_location, two kings), and the command-line front end's handling of the error.",
 "C16": "Look for state that survives a `position` command: board fields reset or not, time-control struct, killer/PV tables, draw table, and what a malformed or partial `position` leaves behind.",
 "C17": "Look at the dispatch of the first token, at whitespace splitting, at `quit`/EOF while a search is running, and at `isready` handling between other commands.",
 "C18": "Look at how the info line is assembled: PV length/termination, node counter resets, depth field across iterations, time field, mate-vs-cp threshold, score ordering within a depth.",
}
tmpl = open(os.path.join(os.path.dirname(__file__), "seed_prompt_template.txt")).read()
os.makedirs(out, exist_ok=True)
for pid, p in props.items():
    tag = pid + suffix
    text = tmpl.replace("@TAG@", tag).replace("@PID@", pid).replace("@TITLE@", p.get("title", "")).replace("@STATEMENT@", p["statement"]).replace("@SCOPE@", p.get("quantifier", {}).get("text", "")).replace("@PRIOR@", "\n".join(prior)).replace("@HINT@", HINTS[pid])
    open(os.path.join(out, "prompt-%s.txt" % tag), "w").write(text)
print("wrote", len(props), "prompts to", out)
