#!/usr/bin/env python3
"""tools/seed_prompts.py <round-suffix> <outdir>  - write one prompt per property for a fresh
round of independent seeded-change authors. A prompt contains the property text, the list of
changes earlier authors already proposed (their own one-line summaries) and a hint where to look;
nothing about how /verif checks anything."""
import json, os, sys, glob
suffix, out = sys.argv[1], sys.argv[2]
props = {}
for line in open(os.path.join(os.path.dirname(__file__), "..", "properties.jsonl")):
    p = json.loads(line)
    props[p["id"]] = p
prior = []
for m in sorted(glob.glob(os.path.join(os.path.dirname(__file__), "..", "seeded", "*", "meta.json"))):
    d = json.load(open(m))
    if d.get("summary"):
        prior.append("- (%s) %s" % (d["property"], d["summary"][:240]))
HINTS = {
 "C01": "Look at sliders/knights near the board edge (sentinel squares of the 12x12 board), pinned pieces, double check, pawn single/double steps that are blocked, or king steps next to enemy pawns - not castling rights, promotion or en passant, which earlier rounds covered.",
 "C02": "Look at what a successor carries besides the placement: king_location after castling or a king capture, the last_move descriptor of castling and en passant, the en-passant target set by a double step (only when? which square?), rights after a king move.",
 "C03": "Look at how the answer is composed and sent: the channel between the search thread and the I/O thread, which board is printed when several arrive, formatting of castling/en-passant moves, repeated `go` without a new position.",
 "C04": "Look at the text applier's castling (rook relocation, rights), its double-step en-passant target, promotion with capture, the hash updates it makes, FEN start positions with Black to move.",
 "C05": "Look at the key updates of castling (rook hop, both rights lost at once), promotion captures, double steps (ep file in/out), king moves, and the side-to-move term.",
 "C06": "Look at slider rays (where they stop, which pieces count as diagonal/straight attackers), knight offsets, and the colour parameter (the side that has just moved).",
 "C07": "Look at state that must be restored or ignored on the abort path: PV table, killer table, node counters feeding info lines, draw table in quiescence/check extension, the null-move board.",
 "C08": "Look at the I/O thread's polling loop and the search thread's exit conditions (early exit on mate found, MAX_DEPTH reached, single legal move), sleeps, and what happens when the search finishes long before the deadline.",
 "C09": "Look at parse_go_command and GameTime (token order, winc/binc/movestogo, defaults, the safety margin, rounding/casts to u128).",
 "C10": "Look at play_out_position / the position handler (when the start position and each later position is inserted, clear), and at how the search adds/removes positions around recursion, check extension and null move.",
 "C11": "Look at mate-distance pruning bounds, the value returned when no legal move exists (check vs stalemate, ply offset), the check extension, and the conversion of scores to `mate N`.",
 "C12": "Look at killer-move storage/ordering, PV-table copying, the alpha/beta window handed to children, the zero-window re-search condition, or the root's handling of equal values.",
 "C13": "Look at which moves count as captures in capture-only mode (king captures, sliders, pawn diagonal moves onto empty squares, capture-promotions to all four pieces) and the order-heuristic bookkeeping that may drop moves.",
 "C14": "Look at piece-square table indexing for Black vs White, the game-phase/taper weights, king tables, and any asymmetry between the white and black accumulation loops.",
 "C15": "Look at the castling field, side-to-move field, number of ranks/fields, king bookkeeping (king_location, two kings), and the command-line front end's handling of the error.",
 "C16": "Look for state that survives a `position` command: board fields reset or not, time-control struct, killer/PV tables, draw table, and what a malformed or partial `position` leaves behind.",
 "C17": "Look at the dispatch of the first token, at whitespace splitting, at `quit`/EOF while a search is running, and at `isready` handling between other commands.",
 "C18": "Look at how the info line is assembled: PV length/termination, node counter resets, depth field across iterations, time field, mate-vs-cp threshold, score ordering within a depth.",
}
HINTS_R5 = {
 "C01": "Earlier rounds changed castling rights, en passant bookkeeping, promotion and the fast paths of the check test. Look elsewhere: how pseudo-legal targets of bishops/rooks/queens/knights/king are enumerated (loop bounds, the sentinel ring, stopping on own vs enemy piece), pawn pushes (single/double, blocked), pawn captures on the a/h files, the legality filter for king steps along the line of a checking slider, and a `perft`-neutral pair of slips (one extra and one missing move) is especially welcome.",
 "C02": "Prefer a fault that is invisible in the successor itself and only shows in a LATER successor of a chain (a field inherited through clone(): king squares, rights, ep target, last_move, pawn_promotion), or one that needs two particular moves in a row (e.g. a capture by a king, then castling by the other side; a double step, then a double step on the adjacent file).",
 "C03": "Prefer a fault that needs a particular interleaving of the search thread and the polling I/O thread (which message is taken when several are queued, what happens when the deadline falls between two sends, a move received after the loop condition was evaluated), or a particular SEQUENCE of go commands without a new position (state carried from one go to the next).",
 "C04": "Look at `position fen ... moves ...` (which tokens form the FEN, where the move list starts, FENs with Black to move or with an en-passant square), at moves played by Black in the text applier (mirror-image constants), and at the king-square cache / hash after the text applier's castling and en passant.",
 "C05": "Look at the from-scratch key in the FEN loader (partial castling rights, Black to move, ep square), at ZobristHasher's getters and table layout (index computation from piece kind/colour/square), and at updates made when a rook or king captures or is captured on its home square.",
 "C06": "Look at how the colour argument selects the king square and the attacking colour, at rays that start next to the board edge, at which piece kinds count on diagonals vs. straight lines, at the king-adjacency test, and at pawn attack direction for each colour - a fault confined to ONE colour or ONE direction is what we want.",
 "C07": "Prefer a change in how an aborted (timed-out) sub-search unwinds: an early return added for speed, a value compared before the clock is re-read, bookkeeping (repetition record, PV/current line, node counter, killer table) done on the normal path but not on a new abort path, or the quiescence/check-extension path. The fault should only show when the clock expires inside a particular kind of node.",
 "C08": "Prefer a fault that needs a particular timing or kind of position: the search thread finishing (all depths done, forced line, single reply) long before the deadline, the deadline falling before the first send, a terminal position, a very large or very small slice, arithmetic on the slice (u128/i128 conversions), or the polling loop's sleep/recv order.",
 "C09": "Look at GameTime::calculate_time_slice arithmetic (order of subtraction/multiplication/division, float/integer casts, rounding, negative or zero values, increment handling, which side's fields are read) and at parse_go_command's token loop (a value that is itself a keyword, a keyword as last token, repeated keywords).",
 "C10": "Look at the search's own add/remove bookkeeping of the repetition record along the current line (check extension, null move, quiescence, early returns), at DrawTable's add/remove/clear/is_threefold functions themselves, and at what `go` after `go` (no new position) leaves in the record.",
 "C11": "Look at the mate score as a function of ply (sign, off-by-one, check extension and null move changing the ply), at the stalemate/no-moves test (which colour's check status is asked), and at mate-distance pruning bounds returning a bound that the root then reports.",
 "C12": "Prefer a change to an ordering or windowing device that is value-neutral in most positions and changes the value only in special ones: killer table slots shared between plies, PV bookkeeping that reorders, the fail-soft/fail-hard return value of quiescence or of a cut-off, stand-pat when in check, the check extension at depth 0.",
 "C13": "Look at the capture-only variants of the king, knight and slider generators (what counts as a capture, empty target squares, own pieces), at en passant in capture-only mode (is it offered? is the captured pawn removed?), and at the castling-right / king-square bookkeeping of capture-only successors that a later capture in the chain depends on.",
 "C14": "Look at the game-phase computation (which pieces count, clamp), the taper formula (integer division/rounding, operator precedence), and the table lookup for one particular piece kind or one colour; a fault that vanishes for symmetric or opening-phase positions and appears only at unusual material (several queens, no minor pieces, bare kings) is what we want.",
 "C15": "Look at the piece-placement loop (digit handling, 8 squares per rank, 8 ranks, trailing '/'), the side-to-move and castling fields (unknown letters, '-', duplicates), the en-passant field, king bookkeeping when a king letter appears twice or never, and integer parsing of the counters (signs, overflow, '+').",
 "C16": "Look for anything that could outlive a `position` or `go`: the board variable when `position` fails or is partial, the repetition record after `go` (the engine plays its own move on its board), option state, lazily initialised or cached values, thread-locals/statics introduced 'for speed', the detached search thread of a previous go still running.",
 "C17": "Look at read_from_gui/clean_input (tabs, carriage returns, leading blanks, empty line), the dispatcher's handling of `commands[0]`, `quit` while a search thread is running, EOF while a search is running, and `setoption` variants; a fault that needs a particular ORDER of garbage and real commands is what we want.",
 "C18": "Look at what the info line reads from shared search state at the moment it is printed: the PV array (stale tail from a previous iteration, empty PV), node counter, the depth variable, the elapsed time; and at the boundary cases of the mate window (scores exactly at MATE_SCORE - 15, positive vs negative rounding).",
}
if suffix >= "r5":
    HINTS = HINTS_R5
tmpl = open(os.path.join(os.path.dirname(__file__), "seed_prompt_template.txt")).read()
os.makedirs(out, exist_ok=True)
for pid, p in props.items():
    tag = pid + suffix
    text = tmpl.replace("@TAG@", tag).replace("@PID@", pid).replace("@TITLE@", p.get("title", "")).replace("@STATEMENT@", p["statement"]).replace("@SCOPE@", p.get("quantifier", {}).get("text", "")).replace("@PRIOR@", "\n".join(prior)).replace("@HINT@", HINTS[pid])
    open(os.path.join(out, "prompt-%s.txt" % tag), "w").write(text)
print("wrote", len(props), "prompts to", out)
