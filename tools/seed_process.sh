#!/bin/bash
# tools/seed_process.sh <tag> <own prop> [other props...]  - confirm a seeded change delivered in
# /tmp/wt-out/<tag> (worktree /tmp/wt/<tag>) independently, then run the quick checks against it.
tag=$1; shift
out=/tmp/wt-out/$tag
[ -f $out/patch.diff ] || { echo "$tag: no patch.diff"; exit 2; }
echo "##### $tag verify"
/verif/tools/seed_verify.sh /tmp/wt/$tag $out 2>&1 | tail -12
echo "##### $tag eval: $*"
/verif/tools/seed_eval.sh $out/patch.diff quick "$@" 2>&1 | cut -c1-600
