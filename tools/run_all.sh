#!/bin/sh
# tools/run_all.sh <quick|thorough> [seed]   - runs every check sequentially, prints a summary table
tier=${1:-quick}; seed=${2:-1}
cd "$(dirname "$0")/.." && mkdir -p .work
for i in 01 02 03 04 05 06 07 08 09 10 11 12 13 14 15 16 17 18; do
  s=$(date +%s)
  VERIF_SEED=$seed ./bin/check C$i $tier > .work/out-C$i-$tier.log 2>&1
  rc=$?
  e=$(date +%s)
  echo "C$i $tier seed=$seed exit=$rc $((e-s))s $(grep -c '^VIOLATION' .work/out-C$i-$tier.log) viol; $(grep -E '^(C[0-9]+ (quick|thorough)|INCONCLUSIVE|KNOWN)' .work/out-C$i-$tier.log | head -3 | tr '\n' ' ' | cut -c1-220)"
done
