#!/usr/bin/env python3
"""Regenerates /verif/MANIFEST.json. Edit CHECKS / PENDING below, then run."""
import json, subprocess

HOOK_COMMITS = subprocess.run(["git", "-C", "/repo", "log", "--format=%H %s"], capture_output=True, text=True).stdout.splitlines()
HOOK_COMMITS = [l.split()[0] for l in HOOK_COMMITS if l.split(" ", 1)[1].startswith("verif hooks")]

ORACLE_NOTE = ("Trusted base: the harness's independent rules oracle (validated against published perft totals and "
               "hand-written rule cases at the start of every run), rustc, and the #[path] inclusion of /repo/src/*.rs "
               "(same source files, harness profile with overflow-checks + debug-assertions). Holds only on the executions observed.")

CHECKS = {
 "C01": dict(cat="exploration", tech="differential reference-model monitor over generated, synthesised and systematically enumerated positions",
    text="Every run compares the multiset of (from,to,promo) of the real generate_moves with an independent oracle's legal moves on ~10^5..10^7 distinct legal positions reached three ways (engine's own successor chain, fresh FEN load, synthesis) plus the complete castling-geometry family; exploration is the right level because the input space is astronomically large and the refuter (a differing move set) is directly observable on each execution.",
    ref="DESIGN.md §7 C01"),
 "C02": dict(cat="exploration", tech="differential reference-model monitor on every generated successor along chains of the engine's own successors",
    text="Each generated successor is compared field by field (64 squares, side, rights, ep target, cached king squares, sentinel ring, move descriptor incl. promotion letter) with oracle.apply, following the engine's own successor objects for up to 300 plies so inherited fields are exercised, plus targeted promotion-then-castling/ep scripts.",
    ref="DESIGN.md §7 C02"),
 "C04": dict(cat="exploration", tech="differential monitor: text applier vs oracle vs generator successor vs fresh FEN load, per ply and per whole command line",
    text="After every ply of oracle-driven games the board produced by the real make_move / play_out_position is compared (fields + hash) with the oracle, with the engine's own generated successor and with a fresh load; every generated move is printed by the engine's own printer and replayed. Explicit scripts cover castling both wings/sides, ep on every file, all promotions with/without capture on every file, rook moves/captures on each corner.",
    ref="DESIGN.md §7 C04"),
 "C05": dict(cat="exploration", tech="invariant monitor: incremental key vs key recomputed from the board's own fields, for all three producers; transposition pairs; component flips",
    text="For every board produced by the FEN loader, the text applier and the generator (both modes) along the walks, the incremental key is compared with a from-scratch key computed through the hasher's public getters; oracle-built transposition pairs must agree on all carriers; single-component flips must change the key; all 781 addressable constants are checked distinct and non-zero.",
    ref="DESIGN.md §7 C05"),
 "C06": dict(cat="exploration", tech="differential monitor of is_check against forward attack generation; complete king x attacker x blocker family",
    text="is_check for both colours is compared with the oracle's forward attack test on the complete family (king on 64 squares x 5 attacker kinds x 64 squares x blocker variants, both colours), all ordered king pairs, random placements (legal or not) and every board visited by game walks (generator and text-applier boards, so cached king squares are exercised).",
    ref="DESIGN.md §7 C06"),
 "C13": dict(cat="exploration", tech="differential monitor along chains of capture-only generations (engine follows its own capture successors, oracle follows the real moves)",
    text="Capture-only generation is compared with the oracle's legal captures (ep and capture-promotions included) and each successor with oracle.apply, along capture chains that follow the engine's own capture-only successors (full breadth two levels, then random branch to depth 10), so state the mode forgets to update surfaces immediately or plies later.",
    ref="DESIGN.md §7 C13"),
}

PENDING = {
}
for i in range(1, 19):
    pid = "C%02d" % i
    if pid not in CHECKS:
        PENDING[pid] = "monitor designed in DESIGN.md §7 but not built yet in this commit (build in progress; not a claim that the technique cannot apply)"

manifest = {
  "version": 1,
  "setup_cmd": "./bin/check selftest",
  "hooks": {
    "guard": "--cfg walleye_verif",
    "enable": "in-process harness: harness/build.rs emits cargo:rustc-cfg=walleye_verif and #[path]-includes /repo/src/*.rs; hooked binary: RUSTFLAGS='--cfg walleye_verif' cargo build --release --manifest-path /repo/Cargo.toml --target-dir /verif/.target/bb-hooked (run from /verif)",
    "baseline_off_cmd": "cd /repo && cargo test --workspace --no-fail-fast --offline",
    "source_commits": HOOK_COMMITS,
    "add_only": True,
  },
  "engines": [
    {"name": "wmon", "path": "harness/", "serves_properties": sorted(CHECKS.keys()),
     "kind_free_text": "Rust monitor harness compiled together with /repo/src/*.rs (cfg walleye_verif): independent rules oracle, workload generators, per-property monitors, evidence/replay writers"},
  ],
  "checks": [],
  "not_applicable": [{"property_id": k, "reason": v} for k, v in sorted(PENDING.items())],
  "notes": "Technique family: runtime monitoring. Exit codes: 0 held on everything observed, 1 violation (VIOLATION line), 2 inconclusive (harness/build problem, too little observed). Known findings: known_findings.txt.",
}
for pid in sorted(CHECKS):
    c = CHECKS[pid]
    manifest["checks"].append({
        "property_id": pid,
        "quick_cmd": "./bin/check %s quick" % pid,
        "thorough_cmd": "./bin/check %s thorough" % pid,
        "evidence_file": "evidence/%s.json" % pid,
        "replay_cmd_template": "./bin/check %s --replay {path}" % pid,
        "engine": c.get("engine", "wmon"),
        "level_claimed": {"category": c["cat"], "text": c["text"], "design_ref": c["ref"]},
        "level_note": c.get("note", ORACLE_NOTE),
        "technique": c["tech"],
    })
json.dump(manifest, open("/verif/MANIFEST.json", "w"), indent=1)
print("wrote MANIFEST.json with", len(manifest["checks"]), "checks,", len(manifest["not_applicable"]), "pending")
