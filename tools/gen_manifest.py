#!/usr/bin/env python3
"""Regenerates /verif/MANIFEST.json. Edit CHECKS / PENDING below, then run."""
import json, subprocess

HOOK_COMMITS = subprocess.run(["git", "-C", "/repo", "log", "--format=%H %s"], capture_output=True, text=True).stdout.splitlines()
HOOK_COMMITS = [l.split()[0] for l in HOOK_COMMITS if l.split(" ", 1)[1].startswith("verif hooks")]

ORACLE_NOTE = ("Trusted base: the harness's independent rules oracle (validated against published perft totals and "
               "hand-written rule cases at the start of every run), rustc, and the #[path] inclusion of /repo/src/*.rs "
               "(same source files, harness profile with overflow-checks + debug-assertions; the in-process part runs a second, shadow time at quick volume "
               "on a build of the harness with the shipped profile - no debug assertions, wrapping arithmetic - and its observations are merged). Holds only on the executions observed.")

CHECKS = {
 "C01": dict(cat="exploration", tech="differential reference-model monitor over generated, synthesised and systematically enumerated positions",
    text="Every run compares the multiset of (from,to,promo) of the real generate_moves with an independent oracle's legal moves on ~10^5..10^7 distinct legal positions reached three ways (engine's own successor chain, fresh FEN load, synthesis) plus the complete castling-geometry family; exploration is the right level because the input space is astronomically large and the refuter (a differing move set) is directly observable on each execution.",
    ref="DESIGN.md §7 C01"),
 "C02": dict(cat="exploration", tech="differential reference-model monitor on every generated successor along chains of the engine's own successors",
    text="Each generated successor is compared field by field (64 squares, side, rights, ep target, cached king squares, sentinel ring, move descriptor incl. promotion letter) with oracle.apply, following the engine's own successor objects for up to 300 plies so inherited fields are exercised, plus targeted promotion-then-castling/ep scripts.",
    ref="DESIGN.md §7 C02"),
 "C04": dict(cat="exploration", tech="differential monitor: text applier vs oracle vs generator successor vs fresh FEN load, per ply and per whole command line; offline checker over the hooked binary's event log for sessions of related position commands",
    text="After every ply of oracle-driven games the board produced by the real make_move / play_out_position is compared (fields + hash) with the oracle, with the engine's own generated successor and with a fresh load; every generated move is printed by the engine's own printer and replayed. Explicit scripts cover castling both wings/sides, ep on every file, all promotions with/without capture on every file, rook moves/captures on each corner. Through the real command loop of the hooked binary: sessions of 2-10 position commands related the way GUI traffic is (the same command again, the game continued, moves taken back down to the bare start, the last moves replaced, another game from the same start, ucinewgame and go in between); the board fields and key recorded after each command must be those the rules give for that command alone.",
    ref="DESIGN.md §7 C04, §13.50"),
 "C05": dict(cat="exploration", tech="invariant monitor: incremental key vs key recomputed from the board's own fields, for all three producers; transposition pairs; component flips",
    text="For every board produced by the FEN loader, the text applier and the generator (both modes) along the walks, the incremental key is compared with a from-scratch key computed through the hasher's public getters; oracle-built transposition pairs must agree on all carriers; single-component flips must change the key; all 781 addressable constants are checked distinct and non-zero.",
    ref="DESIGN.md §7 C05"),
 "C06": dict(cat="exploration", tech="differential monitor of is_check against forward attack generation; complete king x attacker x blocker family",
    text="is_check for both colours is compared with the oracle's forward attack test on the complete family (king on 64 squares x 5 attacker kinds x 64 squares x blocker variants, both colours), all ordered king pairs, random placements (legal or not) and every board visited by game walks (generator and text-applier boards, so cached king squares are exercised).",
    ref="DESIGN.md §7 C06"),
 "C13": dict(cat="exploration", tech="differential monitor along chains of capture-only generations (engine follows its own capture successors, oracle follows the real moves)",
    text="Capture-only generation is compared with the oracle's legal captures (ep and capture-promotions included) and each successor with oracle.apply, along capture chains that follow the engine's own capture-only successors (full breadth two levels, then random branch to depth 10), so state the mode forgets to update surfaces immediately or plies later.",
    ref="DESIGN.md §7 C13"),
}

BB_NOTE = ("Trusted base: the session driver (history recorded at the client boundary), the independent rules oracle, /proc for thread count and CPU time, "
           "the repository's own go parser and time policy for computing the plan. Wall-clock is never the sole ground for a violation: lower bounds are exact, "
           "upper bounds are solo-confirmed three times, hangs are decided from /proc. Holds only on the executions observed.")

CHECKS.update({
 "C03": dict(cat="exploration", tech="offline checkers over recorded UCI transcripts and the hooked binary's event log, under parallel / pinned / failpoint-delayed / ptrace-delayed schedules",
    text="Thousands of go commands on the real binary (grid of clock values incl. absent, zero, negative and huge; chains of go without position) are checked for exactly one well-formed legal bestmove against the oracle-tracked position; the hooked build's internal event log is checked for FIFO/exactly-once hand-off between search_send and io_recv and 'printed move = last received' under seeded failpoint delays; the unmodified binary is also run under ptrace delay injection (a thread arriving at a channel operation, at its own start or at a standard-output entry point of the standard library is held there while the other runs on), which pulls apart calls that are not made under one lock; the evidence lists the distinct interleaving signatures actually observed. Pipelined sessions (the whole script written without waiting for replies: one write, per line, or pieces that cut lines in two; ended by nothing, quit or end of input) are checked offline for the order of bestmove/readyok lines and the legality of every answer.",
    ref="DESIGN.md §7 C03, §12.2", note=BB_NOTE),
 "C07": dict(cat="fault_enumeration", tech="fault enumeration over the clock-query index at which the allowance expires (virtual clock hook), prefix-of-unaborted-run oracle; failpoint schedules (hooked binary) and ptrace delay injection at the channel operations (unmodified binary) for the two-thread clause",
    text="For each root and iteration limit the unaborted run is recorded, then the search is re-run with the allowance expiring at every (small trees) or a structured sample of clock-query indices k; each run must hand back only legal successors, report a sequence that is a prefix of the unaborted one, leave the repetition record unchanged and not panic. The schedule clause (send after the receiver is dropped) is driven on the hooked binary with delayed sends and read from its event log, and on the unmodified binary with its threads held at channel send/try_recv, at the drop of a channel end and at thread start (stderr watched for a panic).",
    ref="DESIGN.md §7 C07"),
 "C08": dict(cat="exploration", tech="bounded-progress monitor over UCI sessions with terminal and non-terminal roots; hang verdict from /proc (search thread gone, no answer)",
    text="Alternating terminal (checkmate/stalemate) and non-terminal roots under clock settings with planned slice <= 200 ms; a null move is required on terminal roots, a legal move otherwise, isready must be served afterwards. Clock settings include C03's wide grid (negative, zero, huge and out-of-range integers, unknown tokens; affordable lines chosen by a bound computed from the numbers written), finished games also get astronomical mover clocks, a third of the sessions switch the log file on, and a go after the engine's own game-ending move must be answered with a null move. Liveness is restated as a bound (slice + 300 ms, solo-confirmed) and hangs are decided logically. Schedules: parallel, pinned to one CPU, hooked binary with failpoints, unmodified binary under ptrace delay injection at the channel operations, thread start and standard-output entry points.",
    ref="DESIGN.md §7 C08", note=BB_NOTE),
 "C09": dict(cat="exploration", tech="reference-policy monitor (upper bounds from the statement) on calculate_time_slice over an edge-value grid + random points; measured latency vs plan on the real binary",
    text="The real calculate_time_slice and go parser are evaluated on the full cross product of 24 edge values for clock and increment x 9 movestogo values x both colours plus ~10^6 log-uniform random points against bounds written from the statement only; the real binary's go->bestmove delay is compared with the plan (exact lower bound, solo-confirmed upper bound).",
    ref="DESIGN.md §7 C09", note=BB_NOTE),
 "C10": dict(cat="exploration", tech="reference-model monitor of the repetition record (oracle occurrence counts) + score>=0 invariant when a repetition move is available; hooked binary for the real handler incl. clear()",
    text="Histories with 1-3 repetition sites of 1..99 cycles are loaded through the real position handler function and the record compared with oracle counts; sessions of 2-10 position commands on the hooked binary check the record after the real clear(); searches from materially lost roots with a move into a position that occurred 2,3,4,5 times must end every completed depth with a non-negative score (in-process under the virtual clock and on the real binary, there also for a second go without a new position after a forced first answer); perpetual-check roots whose third occurrence is completed inside the search line are compared with the exact reference search at depths 1-7; hooked sessions repeat position commands, send growing move lists, take moves back and replace the last moves. The game behind a lost root also begins with an irreversible move (a pawn push or capture un-made by the oracle) so that the repeated target is the position born from the last capture or pawn move of the game, or lies one reversible ply after it.",
    ref="DESIGN.md §7 C10"),
 "C11": dict(cat="exploration", tech="differential monitor of mate claims and played moves against a full-width mate solver and exact three-man distance-to-mate tables built by the oracle (in-process under the virtual clock, and the move played by the real binary under 1-20 ms slices)",
    text="Real searches (all iterations up to a limit complete under the virtual clock) on endgame families, cornered-king sparse-material roots and positions 1-5 plies before mate; the oracle's solver judges mate-in-1 played, avoidable mate avoided after iterations 2-3, every 'mate N' (N<=3) true, 'mate -N' true on the last line of completed depths, stalemating moves never reported as mate. On K+Q / K+R / K+P v K roots (true distance 4-7 moves, searched to depth 9-10) every mate claim of any length is decided exactly by distance-to-mate tables the oracle builds from its own move generation (self-tested: longest mates 10, 16, 28 moves). Black box: the move the real binary plays under 1-20 ms slices, judged only when an info line printed before the allowance ended proves that the first (second) iteration had finished.",
    ref="DESIGN.md §7 C11"),
 "C12": dict(cat="exploration", tech="differential monitor against a heuristic-free alpha-beta reference over the engine's own evaluation and move generation",
    text="For depths 1-3 the reported score and the selected move's value are compared with the exact minimax value computed by an independent, heuristic-free search that shares only the engine's leaf primitives; the reference is cross-checked against un-pruned minimax in every run. Roots include thousands of sparse unbalanced positions one or two reversible plies after a position that occurred twice, where a repetition draw sits next to values far from zero inside the depth-3 tree.",
    ref="DESIGN.md §7 C12"),
 "C14": dict(cat="exploration", tech="metamorphic monitor (mirror, negation, irrelevance of non-placement state, bound) incl. exhaustive single-piece basis; differential monitor of generator-chain and text-applier boards against a fresh load along game walks",
    text="get_evaluation is checked for mirror symmetry, negation under side swap, independence from every non-placement field and |eval| <= 50000 on the exhaustive single-piece basis (12 x 64 squares x 14 phase levels x 2 sides) and ~2.5*10^5 random placements with up to nine queens a side. Along game walks (library starts and nearly full boards with surplus queens and pawns about to promote; captures and promotions preferred) the board that came down the generator's own successor chain and the board the text applier has been playing on must evaluate exactly like a fresh load of the same position at every ply.",
    ref="DESIGN.md §7 C14"),
 "C15": dict(cat="exploration", tech="totality monitor (catch_unwind + CLI exit status) over generated, mutated, Unicode and exhaustive ep-field strings; faithfulness against the oracle's strict parser",
    text="~4*10^5 strings per quick run through the real from_fen (no panic; well-formed legal FENs with counters up to 70000 accepted and loaded faithfully), the ep field exhaustively over all 1-3 symbol strings of a 40-symbol alphabet, and a sample through the real binary's command line, incl. arguments that are not UTF-8 (exit 0, no panic, and the load error printed - never a perft - whenever the real from_fen rejects the same input).",
    ref="DESIGN.md §7 C15"),
 "C16": dict(cat="exploration", tech="differential monitor: probe after arbitrary session prefix vs fresh process (bestmove equality, prefix-compatible info sequences)",
    text="Probes (zero-slice and timed) issued after generated prefixes of up to 60 commands, including the probed game itself so that a leaked repetition record doubles counts, are compared with fresh-engine references. Long sessions (the probed game searched once, then 253..258 / 509..514 - thorough: also about 1024, 4096, 65536 - searches of other positions, then the probe) look for state that is told apart by a small counter or generation number.",
    ref="DESIGN.md §7 C16", note=BB_NOTE),
 "C17": dict(cat="exploration", tech="differential monitor of scripts with/without garbage lines; lifecycle checks via /proc (exit, CPU time after EOF)",
    text="Scripts with unknown lines inserted at random points must give the same answers as without them, isready is always answered, quit and EOF end the process promptly and it does not spin (process CPU time vs wall time). Scripts switch the engine's log file on in half of the sessions, carry long multi-byte and non-UTF-8 lines, and are also written pipelined (no waiting for replies) and ended by quit or end of input. Odd white space includes every Unicode white-space character the engine's normaliser accepts (vertical tab, form feed, NEL, no-break space, em space, ...). Unknown lines include command words with control or invisible characters inside, long lines made of command words, NUL bytes, megabyte lines; end of input also arrives in the middle of a line.",
    ref="DESIGN.md §7 C17", note=BB_NOTE),
 "C18": dict(cat="exploration", tech="trace-specification monitor (strict grammar + bounds + monotonicity) over info lines from clock-cut in-process searches and real transcripts",
    text="Every info line produced while the virtual clock cuts the search at enumerated points, and every line of timed go commands on the real binary, is parsed against the strict grammar and checked for depth monotonicity, score bounds (incl. the value implied by mate N), first-PV-move legality and strictly increasing scores within a depth. The black box includes info bursts at the deadline (a quarter of them under ptrace delay injection at the standard-output entry points, which tears lines that are not written under one lock) and searches of 1.2-3 s on balanced middle-game roots produced by the engine's own self-play, where one depth prints several lines hundreds of milliseconds apart.",
    ref="DESIGN.md §7 C18"),
})

PENDING = {
}
for i in range(1, 19):
    pid = "C%02d" % i
    if pid not in CHECKS:
        PENDING[pid] = "monitor designed in DESIGN.md §7 but not built yet in this commit (build in progress; not a claim that the technique cannot apply)"

manifest = {
  "version": 1,
  "setup_cmd": "./bin/check setup",
  "hooks": {
    "guard": "--cfg walleye_verif",
    "enable": "in-process harness: harness/build.rs emits cargo:rustc-cfg=walleye_verif and #[path]-includes /repo/src/*.rs; hooked binary: RUSTFLAGS='--cfg walleye_verif' cargo build --release --manifest-path /repo/Cargo.toml --target-dir /verif/.target/bb-hooked (run from /verif)",
    "baseline_off_cmd": "cd /repo && cargo test --workspace --no-fail-fast --offline",
    "source_commits": HOOK_COMMITS,
    "add_only": True,
  },
  "engines": [
    {"name": "wmon", "path": "harness/", "serves_properties": sorted(CHECKS.keys()),
     "kind_free_text": "Rust monitor harness compiled together with /repo/src/*.rs (cfg walleye_verif): independent rules oracle, workload generators, per-property monitors, virtual clock driver, evidence/replay writers"},
    {"name": "bb", "path": "harness/src/bb.rs", "serves_properties": ["C03", "C04", "C07", "C08", "C09", "C10", "C11", "C15", "C16", "C17", "C18"],
     "kind_free_text": "black-box session driver over two builds of /repo itself (.target/bb-plain guard off, .target/bb-hooked with --cfg walleye_verif: event log + failpoints), transcript and event-log checkers"},
  ],
  "checks": [],
  "not_applicable": [{"property_id": k, "reason": v} for k, v in sorted(PENDING.items())],
  "notes": "Technique family: runtime monitoring. Exit codes: 0 held on everything observed, 1 violation (VIOLATION line), 2 inconclusive (harness/build problem, too little observed). Known findings: known_findings.txt.",
}
for pid in sorted(CHECKS):
    c = CHECKS[pid]
    manifest["checks"].append({
        "property_id": pid,
        "quick_cmd": "./bin/check %s quick" % pid,
        "thorough_cmd": "./bin/check %s thorough" % pid,
        "evidence_file": "evidence/%s.json" % pid,
        "replay_cmd_template": "./bin/check %s --replay {path}" % pid,
        "engine": c.get("engine", "wmon"),
        "level_claimed": {"category": c["cat"], "text": c["text"], "design_ref": c["ref"]},
        "level_note": c.get("note", ORACLE_NOTE),
        "technique": c["tech"],
    })
json.dump(manifest, open("/verif/MANIFEST.json", "w"), indent=1)
print("wrote MANIFEST.json with", len(manifest["checks"]), "checks,", len(manifest["not_applicable"]), "pending")
