#!/usr/bin/env python3
"""tools/seed_store.py <name> <srcdir> <property> '<caught_by json>' '<ran text>'  - keep a confirmed seeded change under /verif/seeded/<name>/"""
import json, os, shutil, sys
name, src, prop, caught, ran = sys.argv[1:6]
dst = f"/verif/seeded/{name}"
os.makedirs(dst, exist_ok=True)
for f in ("patch.diff", "demo_test.diff", "demo.sh"):
    if os.path.exists(os.path.join(src, f)):
        shutil.copy(os.path.join(src, f), dst)
am = {}
try:
    am = json.load(open(os.path.join(src, "meta.json")))
except Exception as e:
    am = {"note": "agent meta.json unreadable: %s" % e}
meta = {
    "property": prop,
    "summary": am.get("summary"),
    "needs_to_manifest": am.get("needs_to_manifest"),
    "demonstration": am.get("demo"),
    "confirmed_by_me": ran,
    "checks": json.loads(caught),
    "origin": "independent sub-agent given only the property text and a scratch worktree",
}
json.dump(meta, open(os.path.join(dst, "meta.json"), "w"), indent=1)
print("stored", dst)
