#!/usr/bin/env python3
"""tools/mutants.py [name-substring]  - the author's own list of simple mutations (DESIGN 12.4).
Each is applied to /repo, the quick check of the property is run and must fire, then reverted.
These need not pass the repository's tests; they validate that each monitor is sensitive."""
import subprocess, sys, os
R='/repo/src/'
M=[
 ("C01-drop-transit-test-white-kingside","C01",R+"move_generation.rs","    if is_check_cords(board, White, Point(BOARD_END - 1, BOARD_END - 3))\n        || is_check_cords(board, White, Point(BOARD_END - 1, BOARD_END - 2))","    if is_check_cords(board, White, Point(BOARD_END - 1, BOARD_END - 2))"),
 # (an "en passant from the wrong rank" mutant is equivalent: the target square fixes the capturing pawn's rank)
 ("C02-quiet-move-keeps-ep-target","C02",R+"move_generation.rs","                // the most recent move was not a double pawn move, unset any possibly existing pawn double move\n                new_board.unset_pawn_double_move(zobrist_hasher);","                // the most recent move was not a double pawn move"),
 ("C02-rook-capture-h1-keeps-right","C02",R+"move_generation.rs","        if mov.0 == BOARD_END - 1 && mov.1 == BOARD_END - 1 {\n            new_board.take_away_castling_rights(CastlingType::WhiteKingSide, zobrist_hasher);\n        } else if mov.0 == BOARD_END - 1 && mov.1 == BOARD_START {","        if false {\n            new_board.take_away_castling_rights(CastlingType::WhiteKingSide, zobrist_hasher);\n        } else if mov.0 == BOARD_END - 1 && mov.1 == BOARD_START {"),
 ("C03-no-guard-for-first-move","C03",R+"uci.rs","    while !out_of_time(start, time_to_move_ms) || best_move.is_none() {","    while !out_of_time(start, time_to_move_ms) {"),
 ("C03-promo-letter-always","C03",R+"uci.rs","        send_to_gui(&format!(\"bestmove {}{}\", best_move.0, best_move.1));","        send_to_gui(&format!(\"bestmove {}{}q\", best_move.0, best_move.1));"),
 ("C04-black-queenside-rook-hop","C04",R+"uci.rs","        board.move_piece(\n            Point(BOARD_START, BOARD_START),\n            Point(BOARD_START, BOARD_START + 3),\n            zobrist_hasher,\n        );\n    }\n\n    board.swap_color(zobrist_hasher);","        board.move_piece(\n            Point(BOARD_START, BOARD_START),\n            Point(BOARD_START, BOARD_START + 2),\n            zobrist_hasher,\n        );\n    }\n\n    board.swap_color(zobrist_hasher);"),
 ("C04-ep-pawn-not-removed","C04",R+"uci.rs","                board.board[start_pair.0][end_pair.1] = Square::Empty;\n","                \n"),
 ("C05-castling-right-xor-dropped","C05",R+"board.rs","            self.black_king_side_castle = false;\n            self.zobrist_key ^= zobrist_hasher.get_val_for_castling(CastlingType::BlackKingSide);","            self.black_king_side_castle = false;"),
 ("C05-ep-capture-victim-xor-dropped","C05",R+"move_generation.rs","                new_board.board[mov.0 + 1][mov.1] = Square::Empty;\n                new_board.zobrist_key ^=\n                    zobrist_hasher.get_val_for_piece(Piece::pawn(Black), Point(mov.0 + 1, mov.1));","                new_board.board[mov.0 + 1][mov.1] = Square::Empty;"),
 ("C06-pawn-row-flipped-for-black","C06",R+"move_generation.rs","        Black => square_cords.0 + 1,\n    };","        Black => square_cords.0 - 1,\n    };"),
 ("C06-knight-offset-typo","C06",R+"move_generation.rs","    (-2, 1),\n];","    (-2, 2),\n];"),
 ("C07-stalemate-path-keeps-record","C07",R+"engine.rs","        // stalemate\n        draw_table.remove_board_from_draw_table(board);\n        return 0;","        // stalemate\n        return 0;"),
 ("C08-no-fallback-send","C08",R+"engine.rs","                    let _ = tx.send(moves[0].clone());","                    let _ = &tx;"),
 ("C09-colour-swapped","C09",R+"time_control.rs","        let is_white = color == PieceColor::White;","        let is_white = color == PieceColor::Black;"),
 ("C09-max-usage-8","C09",R+"time_control.rs","const MAX_USAGE: f64 = 0.8;","const MAX_USAGE: f64 = 8.0;"),
 ("C10-no-clear","C10",R+"uci.rs","                draw_table.clear();\n","                \n"),
 ("C10-start-counted-twice","C10",R+"uci.rs","    draw_table.table.insert(board.zobrist_key, 1);","    draw_table.table.insert(board.zobrist_key, 2);"),
 ("C11-stalemate-scored-as-mate","C11",R+"engine.rs","        // stalemate\n        draw_table.remove_board_from_draw_table(board);\n        return 0;","        // stalemate\n        draw_table.remove_board_from_draw_table(board);\n        return -(MATE_SCORE - ply_from_root);"),
 ("C11-mate-distance-one-short","C11",R+"engine.rs","            (MATE_SCORE - eval + 1) / 2,","            (MATE_SCORE - eval + 1) / 2 - 1,"),
 ("C12-research-condition","C12",R+"engine.rs","        if score > alpha && score < beta {","        if score > alpha + 50 && score < beta {"),
 ("C12-stand-pat-negated","C12",R+"engine.rs","    let stand_pat = get_evaluation(board);","    let stand_pat = -get_evaluation(board);"),
 ("C13-quiet-knight-moves-in-capture-mode","C13",R+"move_generation.rs","            if move_generation_mode == MoveGenerationMode::CapturesOnly {\n                if !square.is_empty() {\n                    moves.push(Point(row, col));\n                }\n            } else {\n                moves.push(Point(row, col));\n            }\n        }\n    }\n}\n\n/*\n    Generate pseudo-legal moves for a pawn","            moves.push(Point(row, col));\n        }\n    }\n}\n\n/*\n    Generate pseudo-legal moves for a pawn"),
 ("C14-black-not-mirrored","C14",R+"evaluation.rs","                    black_mg += mg_table(kind)[9 - row][col - BOARD_START] + mg_piece_val(kind);","                    black_mg += mg_table(kind)[row - BOARD_START][col - BOARD_START] + mg_piece_val(kind);"),
 ("C15-no-skip-bound","C15",R+"board.rs","                    if square_skip_count + col > BOARD_END {","                    if false {"),
 ("C17-exit-on-unknown","C17",R+"uci.rs","            _ => error!(\"Unrecognized command: {}\", buffer),","            _ => process::exit(3),"),
 ("C17-quit-ignored","C17",R+"uci.rs","            \"quit\" => process::exit(1),","            \"quit\" => (),"),
 ("C18-depth-zero-based","C18",R+"engine.rs","                send_search_info(&search_info, cur_depth, evaluation, start);","                send_search_info(&search_info, cur_depth - 1, evaluation, start);"),
 ("C18-pv-dropped","C18",R+"engine.rs","    for mov in &search_info.pv_moves {\n        if let Some(m) = mov {","    for mov in &search_info.pv_moves[0..0] {\n        if let Some(m) = mov {"),
 ("C16-killers-and-pv-kept-in-a-static","C16",R+"search.rs","    pub fn reset_search(&mut self) {\n        self.nodes_searched = 0;","    pub fn reset_search(&mut self) {\n        self.nodes_searched = NODES_OFFSET.fetch_add(1, std::sync::atomic::Ordering::Relaxed);"),
]
EXTRA={"C16-killers-and-pv-kept-in-a-static": (R+"search.rs","pub const MAX_DEPTH: u8 = 100;","pub const MAX_DEPTH: u8 = 100;\nstatic NODES_OFFSET: std::sync::atomic::AtomicU32 = std::sync::atomic::AtomicU32::new(0);")}
flt=sys.argv[1] if len(sys.argv)>1 else ""
os.chdir('/verif')
if subprocess.run("git -C /repo status --short",shell=True,capture_output=True,text=True).stdout.strip():
    print("/repo not clean"); sys.exit(2)
missed=0
for name,prop,path,old,new in M:
    if flt not in name: continue
    s=open(path).read()
    if s.count(old)!=1:
        print(f"{name}: PATTERN NOT FOUND ({s.count(old)} matches)"); missed+=1; continue
    open(path,'w').write(s.replace(old,new))
    if name in EXTRA:
        p2,o2,n2=EXTRA[name]; t=open(p2).read(); assert t.count(o2)==1; open(p2,'w').write(t.replace(o2,n2))
    r=subprocess.run(f"./bin/check {prop} quick",shell=True,capture_output=True,text=True)
    subprocess.run("git -C /repo checkout -- .",shell=True)
    out=r.stdout
    nv=out.count("\nVIOLATION")+ (1 if out.startswith("VIOLATION") else 0)
    cls=[l for l in out.splitlines() if l.startswith("violation classes")]
    if r.returncode==1 and nv>0:
        print(f"{name}: caught by {prop} quick {cls[0][26:140] if cls else ''}")
    else:
        tail=[l for l in out.splitlines() if l.startswith(("INCONCLUSIVE",prop))][:2]
        print(f"{name}: MISSED by {prop} quick (exit {r.returncode}) {tail}"); missed+=1
print("missed:",missed)
sys.exit(1 if missed else 0)
