#!/bin/bash
# tools/seed_verify.sh <worktree> <outdir>
# Confirms a seeded change independently: (1) with the patch the 107 existing tests pass,
# (2) the demonstration fails with the patch, (3) passes without it. Prints a summary.
wt=$1; out=$2
cd $wt || exit 2
export CARGO_NET_OFFLINE=true
git checkout -q -- . ; git clean -fdq -e target -e Cargo.lock >/dev/null 2>&1
[ -f Cargo.lock ] || cp /repo/Cargo.lock .
echo "== baseline with patch (existing 107 tests)"
git apply $out/patch.diff || { echo "PATCH DOES NOT APPLY"; exit 1; }
cargo test --offline 2>&1 | grep -E "^test result|FAILED|failed" | head -5
if [ -f $out/demo_test.diff ]; then
  echo "== demo test WITH patch (expect failure)"
  git apply $out/demo_test.diff || { echo "DEMO DIFF DOES NOT APPLY on patched tree"; }
  cargo test --offline 2>&1 | grep -E "^test result|^test .* FAILED" | head -8
  echo "== demo test WITHOUT patch (expect all pass)"
  git checkout -q -- . ; git apply $out/demo_test.diff
  cargo test --offline 2>&1 | grep -E "^test result|^test .* FAILED" | head -8
fi
if [ -f $out/demo.sh ]; then
  echo "== demo.sh WITH patch (expect non-zero)"
  git checkout -q -- . ; git apply $out/patch.diff
  cargo build --release --offline 2>&1 | grep -E "^error" ; cp target/release/walleye /tmp/wt-out/walleye-patched-$$
  bash $out/demo.sh /tmp/wt-out/walleye-patched-$$ >/tmp/wt-out/demo-with.log 2>&1; echo "exit=$? $(tail -2 /tmp/wt-out/demo-with.log | tr '\n' ' ' | cut -c1-200)"
  echo "== demo.sh WITHOUT patch (expect 0)"
  git checkout -q -- .
  cargo build --release --offline 2>&1 | grep -E "^error" ; cp target/release/walleye /tmp/wt-out/walleye-clean-$$
  bash $out/demo.sh /tmp/wt-out/walleye-clean-$$ >/tmp/wt-out/demo-without.log 2>&1; echo "exit=$? $(tail -2 /tmp/wt-out/demo-without.log | tr '\n' ' ' | cut -c1-200)"
  rm -f /tmp/wt-out/walleye-patched-$$ /tmp/wt-out/walleye-clean-$$
fi
git checkout -q -- .
