#!/bin/bash
# tools/seed_eval.sh <patch.diff> <tier> <prop> [prop...]  - apply a seeded change to /repo, run checks, undo.
patch=$1; tier=$2; shift 2
cd /verif
git -C /repo status --short | grep -q . && { echo "/repo not clean"; exit 2; }
git -C /repo apply $patch || { echo "patch does not apply to /repo"; exit 2; }
for p in "$@"; do
  ./bin/check $p $tier > .work/seed-$p.log 2>&1; rc=$?
  echo "$p $tier exit=$rc $(grep -c '^VIOLATION' .work/seed-$p.log) viol | $(grep -m1 'violation classes' .work/seed-$p.log | cut -c1-200) | $(grep -m1 '  violation:' .work/seed-$p.log | cut -c1-260)"
done
git -C /repo checkout -- .
git -C /repo status --short
