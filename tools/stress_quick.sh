#!/bin/bash
# tools/stress_quick.sh <hogs> <seed>...  - false-alarm hunt: every quick check on the unchanged tree
# for each given VERIF_SEED while <hogs> busy processes compete for the CPUs. Any line with exit!=0
# is a false alarm (or an inconclusive run) to be explained before anything else.
hogs=$1; shift
cd "$(dirname "$0")/.." || exit 2
pids=""
for i in $(seq 1 $hogs); do ( while :; do :; done ) & pids="$pids $!"; done
trap "kill $pids 2>/dev/null" EXIT
for s in "$@"; do
  tools/run_all.sh quick $s | grep -v "exit=0 " | sed "s/^/NONZERO: /"
  echo "seed $s done"
done
kill $pids 2>/dev/null
